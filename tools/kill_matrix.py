#!/usr/bin/env python3
"""Compile seeded/*/runs.log into the markdown kill matrix of DESIGN.md §7b (latest result per mutant x check x tier)."""
import glob, json, os
rows = []
for d in sorted(glob.glob('/verif/seeded/*')):
    name = os.path.basename(d)
    meta = json.load(open(d + '/meta.json')) if os.path.exists(d + '/meta.json') else {}
    res = {}
    if os.path.exists(d + '/runs.log'):
        for line in open(d + '/runs.log'):
            parts = line.split()
            if len(parts) < 6:
                continue
            _, _, check, verdict, secs, tier = parts[:6]
            sigs = ' '.join(parts[6:])
            res[(check, tier)] = (verdict, secs, sigs)
    cells = []
    for (check, tier), (v, secs, sigs) in sorted(res.items()):
        cells.append(f"{check}/{tier}: **{v}** ({secs}){' — ' + sigs if sigs else ''}")
    rows.append((name, ','.join(meta.get('breaks', [])), '<br>'.join(cells) or 'not yet evaluated'))
print("| seeded change | breaks | result of the checks (latest run) |")
print("|---|---|---|")
for r in rows:
    print(f"| `{r[0]}` | {r[1]} | {r[2]} |")

#!/bin/sh
# Fault-injecting stand-in for the git binary (passed as ServerConfig::Git.git_path).
# The control directory is the directory this script was copied into: it holds
#   count        number of invocations so far (reset by the harness before the target operation)
#   plan         "<k> <kind>": act on the k-th invocation; kinds: fail-before | run-then-fail |
#                kill-before | run-then-kill (kill = SIGKILL the calling process) |
#                unreachable-from (the remote becomes unreachable from the k-th invocation on)
#   unreachable  if present, every remote-touching subcommand fails like an unreachable remote
#   log          one line per invocation: "<n> <args>"
#   date         if present, its content is used as GIT_COMMITTER_DATE / GIT_AUTHOR_DATE (aged commits)
d="${0%/*}"
n=0
[ -f "$d/count" ] && read -r n < "$d/count"
n=$(( ${n:-0} + 1 ))
echo "$n" > "$d/count"
echo "$n $*" >> "$d/log"
if [ -f "$d/date" ]; then
  read -r dt < "$d/date"
  export GIT_COMMITTER_DATE="$dt" GIT_AUTHOR_DATE="$dt"
fi
if [ -f "$d/plan" ]; then
  read -r k kind < "$d/plan"
  if [ "$kind" = "unreachable-from" ] && [ "$n" -ge "$k" ]; then : > "$d/unreachable"; fi
fi
if [ -f "$d/unreachable" ]; then
  case "$1" in
    push|fetch|ls-remote|clone|pull) echo "fatal: unable to access remote (verif)" >&2; exit 128;;
  esac
fi
if [ -f "$d/plan" ]; then
  if [ "$n" = "$k" ]; then
    case "$kind" in
      fail-before) exit 1;;
      kill-before) kill -9 $PPID; sleep 2; exit 1;;
      run-then-fail) /usr/bin/git "$@" >/dev/null 2>&1; exit 1;;
      run-then-kill) /usr/bin/git "$@" >/dev/null 2>&1; kill -9 $PPID; sleep 2; exit 1;;
    esac
  fi
fi
exec /usr/bin/git "$@"

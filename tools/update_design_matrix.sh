#!/bin/bash
# regenerate the kill matrix between the markers in DESIGN.md
cd /verif
python3 tools/kill_matrix.py > /tmp/km.md
python3 - <<'PY'
s=open('/verif/DESIGN.md').read()
a=s.index('<!-- KILL-MATRIX-BEGIN -->')+len('<!-- KILL-MATRIX-BEGIN -->')
b=s.index('<!-- KILL-MATRIX-END -->')
s=s[:a]+'\n'+open('/tmp/km.md').read()+s[b:]
open('/verif/DESIGN.md','w').write(s)
PY

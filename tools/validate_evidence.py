#!/usr/bin/env python3
import json, sys, glob, jsonschema
schema = json.load(open("/root/.vp/EVIDENCE.schema.json"))
bad = 0
for f in sorted(glob.glob("/verif/evidence/*.json")):
    try:
        d = json.load(open(f))
        jsonschema.validate(d, schema)
        # beyond the schema: a record for an exploration / fault-enumeration level needs at least one sample
        if len(d.get("coverage", {}).get("samples", [])) < 1:
            raise ValueError("coverage.samples is empty")
        print("ok ", f)
    except Exception as e:
        bad += 1
        print("BAD", f, str(e)[:300])
sys.exit(1 if bad else 0)

#!/bin/bash
# tools/eval_seeded.sh <seeded-dir> <ID> [<ID>...]
# Apply seeded/<dir>/patch.diff to /repo, run the quick checks named, undo the change, and print one
# line per check: "<dir> <ID> CAUGHT|missed|inconclusive <seconds>". Results are appended to
# seeded/<dir>/runs.log (the kill matrix in DESIGN.md §7b is compiled from these).
D="$(realpath "$1")"; shift
cd "${VERIF_EVAL_DIR:-/verif}"
if ! git -C /repo diff --quiet; then echo "/repo has uncommitted changes; refusing"; exit 3; fi
git -C /repo apply "$D/patch.diff" || { echo "patch does not apply: $D"; exit 3; }
trap 'git -C /repo checkout -- . ; git -C /repo clean -fdq src tests 2>/dev/null' EXIT
for id in "$@"; do
  t0=$(date +%s)
  out=$(./check "$id" --tier "${TIER:-quick}" 2>/dev/null)
  rc=$?
  t1=$(date +%s)
  if echo "$out" | grep -q "^VIOLATION property=$id"; then v=CAUGHT
  elif [ $rc -eq 2 ]; then v=inconclusive
  elif [ $rc -eq 0 ]; then v=missed
  else v="error($rc)"; fi
  sig=$(for f in replays/$id-${TIER:-quick}-*.json; do [ -f "$f" ] && python3 -c "import json,sys;print(json.load(open('$f'))['signature'])"; done 2>/dev/null | sort -u | head -4 | tr '\n' ' ')
  [ "$v" = CAUGHT ] || sig=""
  line="$(basename "$D") $id $v $((t1-t0))s ${TIER:-quick} $sig"
  echo "$line"; echo "$(date -u +%FT%TZ) $line" >> "$D/runs.log"
  # keep the witnesses of the last evaluation outside the tree (diagnosis of unexpected signatures)
  mkdir -p "/var/tmp/verif-eval-replays/$(basename "$D")" && cp replays/$id-${TIER:-quick}-*.json "/var/tmp/verif-eval-replays/$(basename "$D")/" 2>/dev/null
  rm -f replays/$id-${TIER:-quick}-*.json
done

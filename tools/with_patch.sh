#!/bin/bash
# tools/with_patch.sh <patch.diff> <ID> [<ID>...]  — apply a seeded change to /repo, run quick checks, undo it.
# Set TIER=thorough for the thorough tier.
P="$(realpath "$1")"; shift
cd /verif
if ! git -C /repo diff --quiet; then echo "/repo has uncommitted changes; refusing"; exit 3; fi
git -C /repo apply "$P" || { echo "patch does not apply"; exit 3; }
trap 'git -C /repo checkout -- . ; git -C /repo clean -fdq src tests 2>/dev/null' EXIT
for id in "$@"; do
  echo "=== $id with $(basename $(dirname $P))"
  ./check "$id" --tier "${TIER:-quick}" 2>/dev/null | grep -E "VIOLATION|KNOWN-FINDING|INCONCLUSIVE|verdict=" | cut -c1-300 | head -8
  echo "exit=$?"
done

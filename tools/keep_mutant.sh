#!/bin/bash
# tools/keep_mutant.sh <worktree> <name> <props-comma> — copy a confirmed seeded change into /verif/seeded/<name>
WT="$1"; N="$2"; P="$3"
D=/verif/seeded/$N; mkdir -p "$D"
cp "$WT/patch.diff" "$D/patch.diff"; cp "$WT/tests/mutant_demo.rs" "$D/mutant_demo.rs" 2>/dev/null; cp "$WT/MUTANT.md" "$D/MUTANT.md" 2>/dev/null
python3 - "$D" "$N" "$P" <<'PY'
import json,sys,re
d,n,p=sys.argv[1:4]
md=open(d+'/MUTANT.md').read() if __import__('os').path.exists(d+'/MUTANT.md') else ''
json.dump({"id":n,"breaks":p.split(','),"origin":"independent sub-agent given only the property text and a scratch worktree","needs_to_manifest":"see MUTANT.md","demonstration":"mutant_demo.rs (integration test; fails with the change, passes without)","confirmed":"tools/confirm_mutant.sh: builds, existing suite passes with the change (only sync_server_tls fails), demo fails with / passes without","evaluated_with":"tools/eval_seeded.sh; results in runs.log"},open(d+'/meta.json','w'),indent=1)
PY
echo kept $D

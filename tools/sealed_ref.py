#!/usr/bin/env python3
"""Independent reference for TaskChampion's sealed format (docs/src/encryption.md), used as the
C13 oracle. Pure Python: ChaCha20-Poly1305 written from RFC 8439, key = PBKDF2-HMAC-SHA256
(hashlib). No dependency on ring, Rust or the crate.

Batch mode: reads JSON lines on stdin
    {"id": .., "secret": hex, "salt": hex, "version_id": hex(16 bytes), "sealed": hex,
     "iterations": 600000 (optional), "app_id": 1 (optional)}
and writes one JSON line per input
    {"id": .., "ok": bool, "plain": hex or null, "nonce": hex or null, "why": str}
With "op": "seal" (+ "nonce", "plain", optional "format") it writes {"id": .., "sealed": hex}: a value
sealed by this independent implementation, which the crate must open.
Self-test (RFC 8439 §2.8.2 vector + PBKDF2 sanity) runs first; a failing self-test exits 3 so that
a bug in the oracle is never reported as a violation.
"""
import hashlib, json, struct, sys


def _rotl(v, c):
    return ((v << c) & 0xFFFFFFFF) | (v >> (32 - c))


def _qr(s, a, b, c, d):
    s[a] = (s[a] + s[b]) & 0xFFFFFFFF; s[d] = _rotl(s[d] ^ s[a], 16)
    s[c] = (s[c] + s[d]) & 0xFFFFFFFF; s[b] = _rotl(s[b] ^ s[c], 12)
    s[a] = (s[a] + s[b]) & 0xFFFFFFFF; s[d] = _rotl(s[d] ^ s[a], 8)
    s[c] = (s[c] + s[d]) & 0xFFFFFFFF; s[b] = _rotl(s[b] ^ s[c], 7)


def chacha20_block(key, counter, nonce):
    st = [0x61707865, 0x3320646E, 0x79622D32, 0x6B206574]
    st += list(struct.unpack("<8I", key)) + [counter] + list(struct.unpack("<3I", nonce))
    w = st[:]
    for _ in range(10):
        _qr(w, 0, 4, 8, 12); _qr(w, 1, 5, 9, 13); _qr(w, 2, 6, 10, 14); _qr(w, 3, 7, 11, 15)
        _qr(w, 0, 5, 10, 15); _qr(w, 1, 6, 11, 12); _qr(w, 2, 7, 8, 13); _qr(w, 3, 4, 9, 14)
    return struct.pack("<16I", *[(w[i] + st[i]) & 0xFFFFFFFF for i in range(16)])


def chacha20(key, counter, nonce, data):
    out = bytearray()
    for i in range(0, len(data), 64):
        ks = chacha20_block(key, counter + i // 64, nonce)
        chunk = data[i:i + 64]
        out += bytes(a ^ b for a, b in zip(chunk, ks))
    return bytes(out)


def poly1305(key, msg):
    r = int.from_bytes(key[:16], "little") & 0x0FFFFFFC0FFFFFFC0FFFFFFC0FFFFFFF
    s = int.from_bytes(key[16:], "little")
    p = (1 << 130) - 5
    acc = 0
    for i in range(0, len(msg), 16):
        n = int.from_bytes(msg[i:i + 16] + b"\x01", "little")
        acc = ((acc + n) * r) % p
    return ((acc + s) & ((1 << 128) - 1)).to_bytes(16, "little")


def _pad16(b):
    return b"\x00" * ((16 - len(b) % 16) % 16)


def aead_tag(key, nonce, aad, ct):
    otk = chacha20_block(key, 0, nonce)[:32]
    mac = aad + _pad16(aad) + ct + _pad16(ct) + struct.pack("<QQ", len(aad), len(ct))
    return poly1305(otk, mac)


def aead_open(key, nonce, aad, ct_and_tag):
    if len(ct_and_tag) < 16:
        return None
    ct, tag = ct_and_tag[:-16], ct_and_tag[-16:]
    want = aead_tag(key, nonce, aad, ct)
    # constant time is irrelevant for an oracle
    if want != tag:
        return None
    return chacha20(key, 1, nonce, ct)


def aead_seal(key, nonce, aad, pt):
    ct = chacha20(key, 1, nonce, pt)
    return ct + aead_tag(key, nonce, aad, ct)


def selftest():
    key = bytes(range(0x80, 0xA0))
    nonce = bytes.fromhex("070000004041424344454647")
    aad = bytes.fromhex("50515253c0c1c2c3c4c5c6c7")
    pt = (b"Ladies and Gentlemen of the class of '99: If I could offer you only one tip for the "
          b"future, sunscreen would be it.")
    sealed = aead_seal(key, nonce, aad, pt)
    if sealed[-16:].hex() != "1ae10b594f09e26a7e902ecbd0600691":
        return "RFC 8439 2.8.2 tag mismatch"
    if sealed[:16].hex() != "d31a8d34648e60db7b86afbc53ef7ec2":
        return "RFC 8439 2.8.2 ciphertext mismatch"
    if aead_open(key, nonce, aad, sealed) != pt:
        return "RFC 8439 2.8.2 open mismatch"
    if aead_open(key, nonce, aad, sealed[:-1] + bytes([sealed[-1] ^ 1])) is not None:
        return "tampered tag accepted"
    # RFC 7914 §11 PBKDF2-HMAC-SHA256 vector ("passwd", "salt", 1 iteration, 64 bytes)
    dk = hashlib.pbkdf2_hmac("sha256", b"passwd", b"salt", 1, 64)
    if not dk.hex().startswith("55ac046e56e3089fec1691c22544b605"):
        return "PBKDF2 vector mismatch"
    return None


_keys = {}


def key_for(secret, salt, iterations):
    k = (secret, salt, iterations)
    if k not in _keys:
        _keys[k] = hashlib.pbkdf2_hmac("sha256", secret, salt, iterations, 32)
    return _keys[k]


def open_sealed(secret, salt, version_id, sealed, iterations=600000, app_id=1):
    if len(sealed) < 1 + 12:
        return None, None, "too short"
    if sealed[0] != 1:
        return None, None, "format byte %d" % sealed[0]
    nonce = sealed[1:13]
    aad = bytes([app_id]) + version_id
    pt = aead_open(key_for(secret, salt, iterations), nonce, aad, sealed[13:])
    if pt is None:
        return None, nonce, "authentication failed"
    return pt, nonce, "ok"


def main():
    err = selftest()
    if err:
        sys.stderr.write("sealed_ref self-test failed: %s\n" % err)
        sys.exit(3)
    if len(sys.argv) > 1 and sys.argv[1] == "--selftest":
        print("self-test ok")
        return
    for line in sys.stdin:
        line = line.strip()
        if not line:
            continue
        q = json.loads(line)
        if q.get("op") == "seal":
            key = key_for(bytes.fromhex(q["secret"]), bytes.fromhex(q["salt"]), q.get("iterations", 600000))
            nonce = bytes.fromhex(q["nonce"])
            aad = bytes([q.get("app_id", 1)]) + bytes.fromhex(q["version_id"])
            sealed = bytes([q.get("format", 1)]) + nonce + aead_seal(key, nonce, aad, bytes.fromhex(q["plain"]))
            print(json.dumps({"id": q["id"], "sealed": sealed.hex()}))
            continue
        pt, nonce, why = open_sealed(bytes.fromhex(q["secret"]), bytes.fromhex(q["salt"]),
                                     bytes.fromhex(q["version_id"]), bytes.fromhex(q["sealed"]),
                                     q.get("iterations", 600000), q.get("app_id", 1))
        print(json.dumps({"id": q["id"], "ok": pt is not None, "plain": pt.hex() if pt is not None else None,
                          "nonce": nonce.hex() if nonce else None, "why": why}))
    sys.stdout.flush()


if __name__ == "__main__":
    main()

#!/usr/bin/env python3
"""Generate /verif/MANIFEST.json from the table below (kept in one place so it stays valid)."""
import json, os, subprocess, sys

HERE = os.path.dirname(os.path.dirname(os.path.abspath(__file__)))

BASELINE_OFF = ("cd /repo && cargo nextest run --workspace --no-fail-fast --tool-config-file "
                "pb:/w/lib/nextest.toml --profile pb --test-threads 8 --offline")

# id -> (built?, engine, category, technique, level text, level note, design ref)
P = {
 "C01": (True, "E1-history", "exploration",
         "runtime monitor: chain-replay reference model + replica-invariant oracle over generated sync histories",
         "Real replicas run thousands of generated edit/sync histories (incl. >1MB multi-version syncs, SQLite replicas, late joiners with pending changes against a server that holds snapshots, an exhaustive tiny core) against a harness chain server; after every action the stored state must equal replay(chain..base)+unsynced and at quiescence every replica must equal the independent replay of the stored versions. Held-on-observed, not a proof.",
         "Trusts the harness chain server and the harness' own JSON decoder/reference semantics (written from the docs); histories contain only operations valid in the issuing replica's state.",
         "DESIGN.md §5 C01"),
 "C02": (True, "E2-schedule", "exploration",
         "runtime monitor under a deterministic request-level scheduler (DFS-exhaustive / seeded random schedules) + wire-level lost-change oracle",
         "2-4 real Replica::sync futures run under a cooperative scheduler that decides, request by request, which client's next server request proceeds: every interleaving of two racing syncs is enumerated (DFS) for dozens of prior histories, thousands of random 3-4-replica schedules (incl. multi-batch pending sets, and a directed stratum whose pending list is order-sensitive across the batch boundary) are sampled; every sync must return Ok, the C01 chain-replay oracle must hold after quiescence, and no pushed version may contain an operation that had already strictly lost against a version delivered earlier in the same call.",
         "Interleaving granularity = Server trait requests, each atomic against the harness chain. 'Already lost' asserted only where the rebase provably reaches and drops the operation.",
         "DESIGN.md §5 C02"),
 "C03": (True, "E1-history", "exploration",
         "runtime monitor: rule-derived expectations + all-permutations order-independence over a causal scenario cube",
         "Scenarios (common synced prefix, one of 17 concurrent suffix forms per replica (incl. re-asserting the current value, setting the empty string, a task created independently on several replicas and deleted by one), timestamps incl. ties, optional causally-later change) are run under every permutation of the sync order: pairs exhaustively, triples with a mandatory same-value stratum and seeded random; a free-form stratum gives each of 2-3 replicas 1-3 successive updates with values from a shared alphabet (one replica's change may coincide with an earlier change of another) and timestamps that tie or run backwards inside one replica's own sequence; final states must equal the expectation derived from the documented rules alone (simple forms), be identical across orders (all forms), keep every unconflicted change, and let a causally later change override regardless of timestamp.",
         "For equal timestamps with different values only 'one tied value survives, the same in every order' is demanded. Sync order = one permutation repeated to quiescence.",
         "DESIGN.md §5 C03"),
 "C04": (True, "E3-fault", "fault_enumeration",
         "fault injection at every storage call and server request of a sync + replica-invariant and converged-result oracles against a fault-free run",
         "For each generated history the target sync is re-run once per storage call x {error, process stop} and per server request x {fail before effect, effect then lost reply} (plus random sequences of up to 3 consecutive faults, a multi-batch stratum and a SQLite stratum with reopen): after each fault the stored data must satisfy the replica invariant, the next sync must succeed within two attempts, and quiescence must reach the same state as the uninterrupted run. An 'interleaved' stratum lets another replica write to the same properties and sync between the interrupted and the repeated sync; the result must equal one of the two fault-free orders.",
         "Process stop = future dropped at a storage call (SQLite: replica dropped and directory reopened); power loss not reachable. Liveness in bounded form (2 attempts).",
         "DESIGN.md §5 C04"),
 "C05": (True, "E1-history", "exploration",
         "runtime monitor: one-at-a-time reference model + error injection at every storage call of a commit",
         "Every batch of <=3 operations over a 13-operation alphabet on 4 prior states (exhaustively on in-memory storage; SQLite sampled in quick, full in thorough) plus random batches up to 30 operations (incl. status changes that move tasks into the working set) is committed through the real Replica and compared with the documented one-at-a-time semantics, the expected unsynced list, the undo/operation counters and the replica invariant; an error injected at each storage call of the commit must leave no trace. Recorded old values in the batches are right, stale, or equal to the new value (they are for undo only and must not change the effect).",
         "Atomicity fault model is 'a storage call returns an error' (process death is C06). Reference semantics written from docs/src/storage.md.",
         "DESIGN.md §5 C05"),
 "C06": (True, "E3-fault", "fault_enumeration",
         "crash injection (error / dropped future / child-process abort() at every storage call, abort() after commit, SIGKILL at random instants) + full-dump comparison through a fresh handle",
         "Commit, undo, both rebuild modes, sync and the first sync of a fresh replica (snapshot + later versions from an HTTP reference server) on a prepared SQLite replica are interrupted at every storage call index in-process and by abort() in a child process (and right after each commit returned); the directory is reopened through a fresh handle and its dump (tasks, unsynced operations, base version, working set, per-task logs) must equal the before-state, the after-state of a fault-free run on a byte copy, or (rebuild being a documented separate step) the after-state's tasks with the before-state's working set — nothing derived from the implementation's own commit calls. A second workload SIGKILLs a committing child at random instants and compares with the acknowledged commits. Stratum failed-undo: an undo whose list contains an operation that cannot be reversed, after ones that can, must leave exactly the before-state unless it reports success.",
         "Process death only (no power loss / torn pages). Version ids chosen by the on-disk local server are normalised.",
         "DESIGN.md §5 C06"),
 "C16": (True, "E4-differential", "exploration",
         "differential execution of both storage backends through the public StorageTxn trait + contract model + legacy-schema fixtures",
         "Thousands of contract-respecting transaction scripts over all 20 StorageTxn methods run in lock-step on InMemoryStorage and SqliteStorage (with close/reopen, commit/abandon); every result is compared between the backends and with a contract model that names the wrong side (operations are removed by equal-but-independently-built values); databases built by plain SQL under the 0.8, 0.9, (0,1) and (0,2) schemas are upgraded and compared with their known content; read-only handles must refuse every modification.",
         "Collections compared as multisets, errors by class. Read-only handles on not-yet-upgraded legacy databases are only required to refuse modifications.",
         "DESIGN.md §5 C16"),
 "C17": (True, "E5-stress", "exploration",
         "multi-thread / multi-process stress on one SQLite directory + post-hoc audit of per-commit result logs against the stored operation log",
         "2-8 workers (threads, and child processes in a third of the rounds) with their own handles commit unique-id batches touching shared task rows (incl. status flips of shared tasks), undo, rebuild and read concurrently; a ws-race stratum lets 3-7 handles turn the same 40 unlisted tasks pending at barrier-synchronised moments; afterwards a fresh handle audits: every successful commit contiguously present exactly once (or removed whole by a logged successful undo), no trace of failed commits, replay(stored log) == stored tasks, working set exactly the pending set without duplicates, readers only saw states at commit boundaries.",
         "Schedules are those the OS produces. Workload restricted to operations whose validity cannot be invalidated by other handles (DESIGN §5a). Starts on an initialised directory.",
         "DESIGN.md §5 C17"),
 "C12": (True, "E1-history", "exploration",
         "runtime monitor: independent snapshot decoder vs chain replay at the Server boundary; scripted urgencies",
         "A harness server scripts the snapshot urgency of every add_version reply, decodes every uploaded snapshot itself (zlib+JSON) and compares it with its own replay of the chain up to that version; checks the urgency threshold; starts fresh replicas from a snapshot with older versions discarded; offers poison snapshots to non-empty replicas. Includes >1MB multi-version syncs, hostile Unicode, thousands of tasks of mostly multi-byte text, poison snapshots on both storage backends.",
         "A missing snapshot is only asserted for the last version of a sync call (docs: snapshots are made with nothing unsynchronized). Trusts flate2's zlib decoder and serde_json in the oracle.",
         "DESIGN.md §5 C12"),
 "C13": (True, "E6-adversarial", "exploration",
         "runtime monitor against an independent pure-Python AEAD (RFC 8439 + hashlib PBKDF2): exhaustive single-byte tamper / truncation sweeps through the seal hook, and inspection + tampering of what each remote backend actually stores",
         "Every sealed value produced through the hook is checked for the documented form (format byte 1, never-repeated nonce), opened by the independent reference to the exact plaintext, and values sealed by the reference open in the crate; every single-byte change (4 patterns per position), every truncation, an extension and every secret/salt/version-id mismatch must be rejected. What the HTTP client, the object-store server and the git backend really store (request bodies, objects, files and git objects) must open in the reference with the documented salt and AAD, contain no planted task content, and flipping / truncating / swapping / relabelling it must make the Server call fail rather than return data. Two object-store clients racing to create the salt are enumerated under every schedule and must afterwards read each other's data. Secrets include leading / trailing whitespace; a key derived from the stripped secret must not open the value.",
         "Oracle = tools/sealed_ref.py, self-tested on RFC vectors at each invocation. Nonce randomness is observed only as 'never repeated, not a counter'. Object store = hook's in-memory Service; HTTP = harness reference server.",
         "DESIGN.md §5 C13"),
 "C14": (True, "E1-history", "exploration",
         "runtime monitor: strict wire-format validator at the Server boundary + hand-written documents replayed against the reference model",
         "Every history segment a replica hands to the Server trait is validated strictly (keys, types, uuid and timestamp syntax, no extra fields), compared in order and content with the committed operations, and scanned for markers planted in undo-only data (recorded old values are a marker, absent, or equal to the new value — they must not influence what is sent), also when a foreign version lands right before the n-th add_version of a multi-batch sync (rejection in mid-sync: nothing sent may be rewritten or reordered on disjoint tasks); conversely thousands of hand-written documents (other field orders, whitespace, escapes, timestamp precisions, invalid-but-well-formed operations) are applied by a fresh replica and compared with the reference model.",
         "The {\"operations\":[...]} wrapper is treated as normative (the book shows a bare array). Hand-written documents stay inside the documented grammar.",
         "DESIGN.md §5 C14"),
 "C07": (True, "E1-history", "exploration",
         "runtime monitor: per-prefix model states vs replica after undo; wire comparison of what is later sent",
         "Seeded histories of valid batches with undo points, undo, stale-list submissions, syncs and repeated undo down to the last sync on in-memory and SQLite replicas; after each step tasks, the unsynced list and the counters are compared with the harness' model state at the undo point, stale lists must be refused without change, synchronized changes must not be undoable, and the operations later sent to the server must be exactly the surviving ones.",
         "Valid sequences only (the property says so). An undo span holding only an undo point may report false.",
         "DESIGN.md §5 C07"),
 "C08": (True, "E4-differential", "exploration",
         "differential execution of every backend (through its public constructor) against a chain reference model + end-to-end replica histories under the chain-replay oracle",
         "Call sequences (add with right / stale / unknown / nil parents, get-child, add-snapshot, get-snapshot; payloads empty, 1 byte, non-UTF-8, zeros, 1.5 MB) are issued one at a time over 1-3 handles of each backend configuration — local on-disk, git local-only, git with a bare remote (clones opened after and, separately, before the remote's first commit), object store over the hook's in-memory store, HTTP client against the harness reference server — and every result is compared with the chain model (version ids learnt from Ok and checked for freshness). The HTTP client is additionally driven against a server that applies a request and then drops the connection or answers 500: its report must be an error or the truth about the chain before the call. Whole replicas additionally sync through each backend and must equal the replay of the accepted versions.",
         "Local server's add_snapshot is unreachable by design and not called. Object store = CloudServer over the in-memory Service; HTTP server = harness implementation of docs/src/http.md; AWS/GCP adapters and the real sync server are out of reach offline. Git commits are not aged.",
         "DESIGN.md §5 C08"),
 "C11": (True, "E3-fault", "fault_enumeration",
         "fault injection at every internal step of add-version per backend (hook failpoints, per-request object-store faults, a git_path wrapper script failing or killing at each git invocation) followed by a continued history under protocol, chain and convergence oracles",
         "One replica's sync is interrupted inside the backend: local server — 3 failpoints x {error, process abort in a child}; object store — every request of the sync x {fail before, perform then fail, drop the client}, once on a young chain and once on an aged one (expired versions, superseded snapshot) where the sync's add_version runs the deleting cleanup and the audit goes through a brand-new replica; git local-only and git with a bare remote + 2 clones — every git invocation x {fail before, run then fail, kill process before, run then kill} plus remote-unreachable-from-invocation-k (quick tier: a seeded sample for the remote configuration). Then the backend is reopened, the interrupted replica must sync within two attempts, another replica edits and syncs, and a fresh handle audits: one chain holding every version a client was told was accepted, complete versions only, replicas equal its replay, protocol answers correct. Every fault point is continued in both orders (the interrupted replica retries first / the other replica edits and synchronizes before the interrupted handle is reopened). Aged git strata: three versions and a snapshot committed 400 days ago (commit dates set through the wrapper), the target sync is asked for a snapshot, so the faults also hit add_snapshot and the cleanup that removes the expired version files (git rm / commit / push).",
         "Git faults are injected without touching the repo: ServerConfig::Git.git_path points at tools/gitwrap.sh. Liveness in bounded form (2 attempts). Single fault per history.",
         "DESIGN.md §5 C11"),
 "C09": (True, "E2-schedule", "exploration",
         "runtime monitor under a deterministic scheduler at single object-store-request / list-page granularity + offline history checker over client call/return events and the store's request log",
         "Adders with retry, chain-walking readers and snapshot writers run against the real CloudServer over the hook's in-memory object store; every get/put/del/compare-and-swap and every list page is a scheduling point. Two adders (and adder + snapshot writer) are enumerated exhaustively, two adders + reader by budgeted DFS, 3-4 clients by seeded random schedules. The checker asserts: at most one accepted child per parent, every accepted version on the final chain with its bytes, nothing off-chain ever served, rejections name a version that was latest during the call, 'latest' is the chain tail. A client whose add_version was rejected, pulled again and comes back with the same parent is reported (the rejection named a version that could not be reached from the parent).",
         "In-memory Service (atomic requests, pages read from current contents); AWS/GCP adapters' own compare-and-swap is out of reach offline. Cleanup draw pinned to 255 here (C10 owns cleanup).",
         "DESIGN.md §5 C09"),
 "C10": (True, "E2-schedule", "exploration",
         "runtime monitor under the request-level scheduler with fault (stop-after-deletion) injection + deletion audit, retrieval walk and real-replica reconstruction oracles",
         "Cleanup (explicit, or arising naturally from two racing adders) is interleaved at single-request and list-page granularity with add_version / add_snapshot / add_version-then-snapshot-of-that-version / a second cleanup over layouts of 0-12 versions with snapshots, ages around the retention threshold and stray objects, and is stopped after — or handed a failing delete request at — every possible number of deletions. After each schedule: every deletion must fall in a permitted class, the chain from the newest retained on-chain snapshot (or nil) to latest must be retrievable byte-for-byte, retained versions must form an unbroken suffix, a real fresh replica must reconstruct the state, and add_version(latest) must still be accepted.",
         "In-memory Service with controllable creation clock. Removing a newer snapshot in favour of an older retained on-chain one is recorded, not alarmed.",
         "DESIGN.md §5 C10"),
 "C15": (True, "E1-history", "exploration",
         "runtime monitor: working-set specification model over exhaustive small prior working sets and random histories",
         "A specification model written from the statement judges every rebuild (explicit in both modes, implicit after sync and after undo) and every commit: exhaustive over prior working sets of length <=4 x slot kinds {pending, completed, purged, gap} x newcomers x modes (SQLite sampled in quick), plus random histories over all statuses, purges, expiry and incoming syncs.",
         "Trailing empty positions are unobservable by design; newcomer positions only need to be distinct and above every retained number.",
         "DESIGN.md §5 C15"),
 "C18": (True, "E6-adversarial", "exploration",
         "runtime monitor: panic capture (catch_unwind + panic-hook location) around every read accessor on hostile task maps",
         "A boundary dictionary (34 keys/prefixes x 27 values x 3 statuses) is enumerated completely and random hostile task sets are loaded by commit and through sync on both storages; every read accessor of Task, TaskData, WorkingSet, DependencyMap and Replica is called under catch_unwind with iterators drained; any panic is a violation keyed by its location.",
         "Only panics are judged, not the returned values.",
         "DESIGN.md §5 C18"),
 "C19": (True, "E1-history", "exploration",
         "runtime monitor: documented-effect model of every mutator + old-value shadow replay + independent synthetic-tag/dependency-map computation",
         "Random sequences over all public Task and TaskData mutators (incl. reserved names, synthetic and invalid tags, all UDA API generations) across commit/reload cycles; after every call the Task the caller holds must equal the documented effect, every recorded Update's old value must equal the shadow map, commits must store exactly the held task, the end/modified rules must hold, synthetic tags / dependency map must equal an independent computation from the stored data, and the cached dependency map must equal a forced rebuild after every commit (incl. purges). Low-level sessions also record an idempotent TaskData::create for the existing task between updates.",
         "Session = lifetime of one Task value; dependency map compared after dependency_map(true) and a non-renumbering rebuild; clock-derived values judged by a wall-clock window.",
         "DESIGN.md §5 C19"),
 "C20": (True, "E1-history", "exploration",
         "runtime monitor: independent expiry predicate over a complete status x modified dictionary; multi-replica purge histories with concurrent edits",
         "expire_tasks is judged by an independent predicate on every status x boundary `modified` value (both storages) and in multi-replica histories where other replicas edit the tasks concurrently: the purge must be recorded and sent as plain Delete operations and the task must be gone on every replica after syncing in a random order — also when expiration empties a replica completely and the server holds a snapshot. The dictionary is crossed with the other time-valued properties (end, entry, due, wait, start, scheduled: absent / long past / recent), which must not influence expiry.",
         "No clock hook: tasks inside the window swept by the clock during the call are excluded (boundary cases sit ±5 s outside it).",
         "DESIGN.md §5 C20"),
}

# supplementary sanitizer passes appended to the thorough command (DESIGN.md §4b)
SANITIZE = {
    "C01": " && tools/sanitize.sh miri C01",
    "C06": " && tools/sanitize.sh memcheck C06 && tools/sanitize.sh miri-wrapper C06",
    "C16": " && tools/sanitize.sh memcheck C16",
    "C17": " && tools/sanitize.sh tsan C17 && tools/sanitize.sh memcheck C17 && tools/sanitize.sh miri-wrapper C17",
}

NOT_YET = "check not built yet in this round (see DESIGN.md §5c build order)"

def main():
    props = [json.loads(l)["id"] for l in open(os.path.join(HERE, "properties.jsonl"))]
    checks, na = [], []
    for pid in props:
        ent = P.get(pid)
        if not ent or not ent[0]:
            na.append({"property_id": pid, "reason": (ent[5] if ent else NOT_YET)})
            continue
        _, engine, cat, tech, text, note, ref = ent
        checks.append({
            "property_id": pid,
            "quick_cmd": f"./check {pid} --tier quick",
            "thorough_cmd": f"./check {pid} --tier thorough" + SANITIZE.get(pid, ""),
            "evidence_file": f"/verif/evidence/{pid}.json",
            "replay_cmd_template": f"./check {pid} --replay {{path}}",
            "engine": engine,
            "level_claimed": {"category": cat, "text": text, "design_ref": ref},
            "level_note": note,
            "technique": tech,
        })
    hook_commits = []
    try:
        out = subprocess.run(["git", "-C", "/repo", "log", "--format=%H %s"], capture_output=True, text=True).stdout
        for line in out.splitlines():
            h, _, subj = line.partition(" ")
            if subj.startswith("verif-hook:"):
                hook_commits.append(h)
    except Exception:
        pass
    engines = [
        {"name": "E1-history", "path": "harness/tcv/src/world.rs", "serves_properties": ["C01","C03","C05","C07","C12","C14","C15","C19","C20"], "kind_free_text": "real replicas + harness chain server; generated histories; reference-model oracles"},
        {"name": "E2-schedule", "path": "harness/tcv/src/exec.rs", "serves_properties": ["C02","C09","C10"], "kind_free_text": "cooperative request-level scheduler (DFS-exhaustive or seeded random) over gated server / object-store requests"},
        {"name": "E3-fault", "path": "harness/tcv/src/obs.rs", "serves_properties": ["C04","C06","C11"], "kind_free_text": "fault plans at storage calls, server requests, failpoints, git commands; child-process aborts and SIGKILL"},
        {"name": "E4-differential", "path": "harness/tcv/src/props", "serves_properties": ["C08","C16"], "kind_free_text": "lock-step differential execution against a reference model / second implementation"},
        {"name": "E5-stress", "path": "harness/tcv/src/props", "serves_properties": ["C17"], "kind_free_text": "threads and processes on one SQLite directory, post-hoc audit; TSan / memcheck passes"},
        {"name": "E6-adversarial", "path": "harness/tcv/src/props", "serves_properties": ["C13","C18"], "kind_free_text": "hostile inputs under panic capture; exhaustive tamper sweeps against an independent AEAD"},
    ]
    m = {
        "version": 1,
        "setup_cmd": "./setup.sh",
        "hooks": {
            "guard": "--cfg gothenburgbitfactory_taskchampion_verif",
            "enable": "harness/.cargo/config.toml sets rustflags = [\"--cfg\", \"gothenburgbitfactory_taskchampion_verif\"]; every check runs `cargo build -p tcv` in /verif/harness, which compiles /repo (path dependency) with the guard on",
            "baseline_off_cmd": BASELINE_OFF,
            "source_commits": hook_commits,
            "add_only": True,
        },
        "engines": engines,
        "checks": checks,
        "not_applicable": na,
        "notes": "Runtime monitoring only: every verdict is 'held on the executions observed'. Known findings: /verif/known_findings.json. Seeded mutants: /verif/seeded/.",
    }
    with open(os.path.join(HERE, "MANIFEST.json"), "w") as f:
        json.dump(m, f, indent=1)
        f.write("\n")
    try:
        import jsonschema
        jsonschema.validate(m, json.load(open("/root/.vp/MANIFEST.schema.json")))
        print("MANIFEST.json valid;", len(checks), "checks,", len(na), "not claimed")
    except ImportError:
        print("written (jsonschema not importable here)")

if __name__ == "__main__":
    main()

#!/bin/bash
# tools/sanitize.sh <memcheck|tsan|miri|miri-wrapper> <ID>  — supplementary sanitizer pass for one property's
# workload (thorough tier). The sanitized run writes no evidence of its own (TCV_NO_EVIDENCE); its
# summary is merged into evidence/<ID>.json under coverage.sanitizers.
# Exit 1 + "VIOLATION property=<ID> replay=<log>" only for a sanitizer report whose faulting access has
# a frame in taskchampion or the harness; anything else (tool unavailable, build failure, reports wholly
# inside SQLite's WAL index or other dependencies) is recorded and exits 0.
set -u
TOOL="$1"; ID="$2"
V="$(cd "$(dirname "$0")/.." && pwd)"
export VERIF_DIR="$V" CARGO_NET_OFFLINE=true TCV_NO_EVIDENCE=1
LOGDIR="$V/replays"; mkdir -p "$LOGDIR"
LOG="$LOGDIR/sanitizer-$TOOL-$ID.log"
note() { # merge a summary into the evidence file
  python3 - "$V/evidence/$ID.json" "$TOOL" "$1" "$2" "$3" "$4" <<'PY'
import json,sys
p,tool,status,runs,inrepo,other=sys.argv[1:7]
try:
    d=json.load(open(p))
except Exception:
    sys.exit(0)
d.setdefault("coverage",{}).setdefault("sanitizers",{})[tool]={"status":status,"workload_runs":int(runs),"reports_in_taskchampion_or_harness":int(inrepo),"reports_elsewhere_suppressed":int(other)}
json.dump(d,open(p,"w"),indent=1)
PY
}
case "$TOOL" in
memcheck)
  cd "$V/harness" && cargo build --offline -p tcv >/dev/null 2>&1 || { echo "sanitize: build failed (skipped)"; note skipped-build 0 0 0; exit 0; }
  cd "$V"
  VERIF_SCALE="${SAN_SCALE:-0.02}" VERIF_THREADS=4 valgrind --error-exitcode=0 --leak-check=no --num-callers=30 --log-file="$LOG" \
      "$V/harness/target/debug/tcv" "$ID" >"$LOG.out" 2>&1
  rc=$?
  grep -q "VIOLATION" "$LOG.out" && { cat "$LOG.out" | grep VIOLATION; exit 1; }
  total=$(grep -c "^==[0-9]*== [A-Z].*\(Invalid\|uninitialised\|Mismatched\|Source and destination\|Jump to\)" "$LOG" 2>/dev/null || true)
  inrepo=$(awk '/^==[0-9]+== (Invalid|Conditional|Use of|Mismatched|Source and)/{blk=1;hit=0} blk&&/(taskchampion|tcv)::/{hit=1} blk&&/^==[0-9]+== $/{if(hit)n++;blk=0} END{print n+0}' "$LOG")
  echo "memcheck $ID: exit=$rc reports=$total in-taskchampion-or-harness=$inrepo log=$LOG"
  note ok 1 "$inrepo" "$((total-inrepo))"
  if [ "$inrepo" -gt 0 ]; then echo "VIOLATION property=$ID replay=$LOG"; exit 1; fi
  exit 0;;
tsan)
  TD="$V/harness/target-tsan"
  cd "$V/harness" || exit 0
  if ! RUSTFLAGS="--cfg gothenburgbitfactory_taskchampion_verif -Zsanitizer=thread" CARGO_TARGET_DIR="$TD" \
        cargo +nightly build --offline -Zbuild-std --target x86_64-unknown-linux-gnu -p tcv >"$LOG.build" 2>&1; then
    echo "sanitize: TSan build failed (skipped, see $LOG.build)"; note skipped-build 0 0 0; exit 0
  fi
  cd "$V"
  TSAN_OPTIONS="halt_on_error=0 exitcode=0 log_path=$LOG suppressions=$V/tools/tsan.supp" TCV_THREADS_ONLY=1 VERIF_SCALE="${SAN_SCALE:-0.3}" \
      "$TD/x86_64-unknown-linux-gnu/debug/tcv" "$ID" >"$LOG.out" 2>&1
  grep -q "VIOLATION" "$LOG.out" && { grep VIOLATION "$LOG.out"; exit 1; }
  total=$(cat "$LOG".* 2>/dev/null | grep -c "WARNING: ThreadSanitizer" || true)
  inrepo=$(cat "$LOG".* 2>/dev/null | awk '/WARNING: ThreadSanitizer/{blk=1;hit=0;top=0} blk&&/#0 /{top++} blk&&/#[0-9]+ .*(taskchampion|tcv)::/{hit=1} blk&&/^==================$/{if(hit&&blk==2)n++; blk=(blk==1?2:0)} END{print n+0}')
  echo "tsan $ID: reports=$total in-taskchampion-or-harness=$inrepo log=$LOG.*"
  note ok 1 "$inrepo" "$((total-inrepo))"
  if [ "$inrepo" -gt 0 ]; then echo "VIOLATION property=$ID replay=$LOG"; exit 1; fi
  exit 0;;
miri)
  cd "$V/harness" || exit 0
  if ! MIRIFLAGS="-Zmiri-disable-isolation" CARGO_TARGET_DIR="$V/harness/target-miri" cargo +nightly miri run --offline -p tcv-miri -- "$ID" "${SAN_HISTORIES:-8}" >"$LOG" 2>&1; then
    if grep -q "Undefined Behavior\|error: unsupported operation\|data race" "$LOG"; then
      echo "miri $ID: report, see $LOG"; note ok 1 1 0; echo "VIOLATION property=$ID replay=$LOG"; exit 1
    fi
    if grep -q "MIRI-ORACLE-VIOLATION" "$LOG"; then echo "VIOLATION property=$ID replay=$LOG"; exit 1; fi
    echo "sanitize: miri run failed for another reason (skipped, see $LOG)"; note skipped-run 0 0 0; exit 0
  fi
  tail -2 "$LOG"
  note ok 1 0 0
  exit 0;;
miri-wrapper)
  # The actor wrapper (storage::send_wrapper) is private; the only pure-Rust way into it is the crate's own
  # unit tests, which put it over InMemoryStorage. They are run from /repo's working tree under Miri (data-race
  # detector, weak-memory emulation, several scheduler seeds) - a sanitizer pass over the thread / channel /
  # rollback-on-drop code that C06 and C17 rely on. SQLite itself cannot be crossed by Miri.
  SEEDS="${SAN_SEEDS:-6}"
  cd /repo || exit 0
  if ! MIRIFLAGS="-Zmiri-disable-isolation -Zmiri-many-seeds=0..$SEEDS" CARGO_TARGET_DIR="$V/harness/target-miri" \
        timeout 3000 cargo +nightly miri test --offline --no-default-features --features storage-sqlite,bundled --lib storage::send_wrapper >"$LOG" 2>&1; then
    if grep -q "Undefined Behavior\|data race\|Data race" "$LOG"; then
      echo "miri-wrapper $ID: report, see $LOG"; note ok "$SEEDS" 1 0; echo "VIOLATION property=$ID replay=$LOG"; exit 1
    fi
    echo "sanitize: miri test run failed for another reason (skipped, see $LOG)"; note skipped-run 0 0 0; exit 0
  fi
  n=$(grep -o "[0-9]* passed" "$LOG" | head -1)
  echo "miri-wrapper $ID: send_wrapper unit tests under Miri, $SEEDS scheduler seeds, $n per seed, no report"
  note ok "$SEEDS" 0 0
  exit 0;;
esac

#!/bin/bash
# tools/confirm_mutant.sh <worktree> — independently confirm a candidate seeded change:
#  (1) working tree == patch.diff, (2) builds, (3) the existing suite passes with it (only the
#  always-failing TLS test and the demo may fail), (4) the demo fails with it, (5) passes without it.
WT="$1"; cd "$WT" || exit 2
export CARGO_TARGET_DIR="$WT/target" CARGO_NET_OFFLINE=true
git checkout -q -- src 2>/dev/null; git apply patch.diff || { echo "CONFIRM: patch does not apply"; exit 1; }
echo "--- suite with the change"
cargo nextest run --workspace --no-fail-fast --offline --test-threads 8 2>&1 | grep -E "^\s+(FAIL|Summary)" | sort -u > /tmp/confirm.$$ 
cat /tmp/confirm.$$ | head
bad=$(grep FAIL /tmp/confirm.$$ | grep -v "sync_server_tls" | grep -v "mutant_demo" | wc -l)
# demos that use the verification hooks need the guard: DEMO_RUSTFLAGS='--cfg gothenburgbitfactory_taskchampion_verif'
demo() { RUSTFLAGS="${DEMO_RUSTFLAGS:-}" cargo nextest run --offline --test mutant_demo "$@"; }
echo "--- demo with the change (must fail)"
demo 2>&1 | grep -E "Summary|FAIL|Starting" | sort -u | head -5
demo >/dev/null 2>&1; with=$?
git apply -R patch.diff
echo "--- demo without the change (must pass)"
demo 2>&1 | grep -E "Summary|FAIL|Starting" | sort -u | head -5
demo 2>&1 | grep -q "Starting [1-9]" ; ran=$?
demo >/dev/null 2>&1; without=$?
[ $ran -eq 0 ] || { echo "demo ran no test (missing DEMO_RUSTFLAGS?)"; without=99; }
git apply patch.diff
rm -f /tmp/confirm.$$
if [ "$bad" -eq 0 ] && [ $with -ne 0 ] && [ $without -eq 0 ]; then echo "CONFIRM: OK (suite passes, demo fails with / passes without)"; exit 0; fi
echo "CONFIRM: REJECTED (other failing tests=$bad demo-with-rc=$with demo-without-rc=$without)"; exit 1

//! C13 — data leaving the host is sealed, version-bound and tamper-evident (engines E6 + E4).
//!
//! Oracle: `tools/sealed_ref.py`, an independent pure-Python ChaCha20-Poly1305 (RFC 8439) with the
//! key from hashlib's PBKDF2-HMAC-SHA256 (600 000 rounds); it self-tests on the RFC vectors before
//! answering, so a bug in the oracle is not reported as a violation.
//!   * format sweep (hook H3 seal/unseal): every sealed value has format byte 1, a never-repeated
//!     12-byte nonce, and opens in the reference to the exact plaintext; values sealed by the
//!     reference open in the crate; every single-byte modification (4 patterns per position), every
//!     truncation, an appended byte, and every mismatch of secret / salt / version id is rejected.
//!   * backends: what actually reaches the HTTP reference server, the in-memory object store and
//!     the git work tree / object database must open in the reference with the documented salt and
//!     AAD (HTTP versions: parent id; everything else: own id), must not contain planted task
//!     content, and any tampering with the stored bytes (flip, truncate, swap, relabel) must make
//!     the `Server` call fail rather than return data.

use serde_json::{json, Value};
use std::collections::{BTreeMap, HashSet};
use std::io::Write;
use std::process::{Command, Stdio};
use taskchampion::server::verif::{set_random_source, SealKey};
use taskchampion::server::{AddVersionResult, GetVersionResult};
use taskchampion::Server;
use uuid::Uuid;

use crate::exec::block_on;
use crate::props::c08::{open, Kind, SECRET};
use crate::report::{run_cases, run_cases_threads, Acc, CaseOut, Ctx, Outcome};
use crate::rng::{fnv, Rng};

fn hex(b: &[u8]) -> String {
    b.iter().map(|x| format!("{x:02x}")).collect()
}

fn unhex(s: &str) -> Vec<u8> {
    (0..s.len() / 2).map(|i| u8::from_str_radix(&s[2 * i..2 * i + 2], 16).unwrap_or(0)).collect()
}

/// Run a batch of queries through the Python reference.
pub fn oracle(queries: &[Value]) -> Result<Vec<Value>, String> {
    let dir = std::env::var("VERIF_DIR").unwrap_or_else(|_| "/verif".into());
    let py = if std::path::Path::new("/usr/bin/python3").exists() { "/usr/bin/python3" } else { "python3" };
    let mut child = Command::new(py)
        .arg(format!("{dir}/tools/sealed_ref.py"))
        .stdin(Stdio::piped())
        .stdout(Stdio::piped())
        .stderr(Stdio::piped())
        .spawn()
        .map_err(|e| format!("HARNESS cannot start the reference: {e}"))?;
    {
        let mut stdin = child.stdin.take().unwrap();
        for q in queries {
            writeln!(stdin, "{q}").map_err(|e| format!("HARNESS write: {e}"))?;
        }
    }
    let o = child.wait_with_output().map_err(|e| format!("HARNESS wait: {e}"))?;
    if !o.status.success() {
        return Err(format!("HARNESS reference failed (self-test?): {}", String::from_utf8_lossy(&o.stderr)));
    }
    let mut out = vec![];
    for line in String::from_utf8_lossy(&o.stdout).lines() {
        out.push(serde_json::from_str::<Value>(line).map_err(|e| format!("HARNESS reference output: {e}"))?);
    }
    if out.len() != queries.len() {
        return Err(format!("HARNESS reference answered {} of {} queries", out.len(), queries.len()));
    }
    Ok(out)
}

const SIZES: &[usize] = &[0, 1, 15, 16, 17, 1000];

fn sweep_case(i: u64, seed: u64, thorough: bool, out: &mut CaseOut) {
    let mut rng = Rng::derive(seed, "c13-sweep", i);
    let replay = json!({"stratum": "format-sweep", "index": i});
    let slen = 1 + rng.below(40);
    let mut secret: Vec<u8> = if i % 3 == 0 { b"s".to_vec() } else { rng.bytes(slen) };
    // secrets are arbitrary byte strings: leading / trailing whitespace (a newline picked up from a
    // file, say) is part of the secret
    secret.extend_from_slice([&b""[..], b"\n", b" ", b"\r\n", b"\t"][((i / 3) % 5) as usize]);
    if (i / 15) % 4 == 1 {
        secret.insert(0, b' ');
    }
    let salt: Vec<u8> = rng.bytes(16);
    let key = match SealKey::derive(&salt, &secret) {
        Ok(k) => k,
        Err(e) => {
            out.violate("seal/derive-error".to_string(), format!("{e}"), replay);
            return;
        }
    };
    let other_secret = { let mut s = secret.clone(); s[0] ^= 1; s };
    let other_salt = { let mut s = salt.clone(); s[15] ^= 0x80; s };
    let key_other_secret = SealKey::derive(&salt, &other_secret).unwrap();
    let trimmed: Vec<u8> = secret.trim_ascii().to_vec();
    let key_trimmed = if trimmed != secret && !trimmed.is_empty() { SealKey::derive(&salt, &trimmed).ok() } else { None };
    let key_other_salt = SealKey::derive(&other_salt, &secret).unwrap();
    let mut nonces: HashSet<Vec<u8>> = HashSet::new();
    let mut queries = vec![];
    let mut expect: Vec<(Vec<u8>, String)> = vec![];
    let mut sizes: Vec<usize> = SIZES.to_vec();
    sizes.push(rng.below(300));
    let mut prev_nonce: Option<Vec<u8>> = None;
    for (n, size) in sizes.iter().enumerate() {
        let version_id = rng.uuid();
        let plain = rng.bytes(*size);
        let reps = if *size <= 17 { 3 } else { 1 };
        for r in 0..reps {
            let sealed = match key.seal(version_id, plain.clone()) {
                Ok(s) => s,
                Err(e) => {
                    out.violate("seal/error".to_string(), format!("{e}"), replay);
                    return;
                }
            };
            out.count("values_sealed", 1);
            // documented form: format byte 1, 12-byte nonce, ciphertext + 16-byte tag
            if sealed.first() != Some(&1) || sealed.len() != 1 + 12 + size + 16 {
                out.violate("seal/format".to_string(), format!("sealed value has first byte {:?} and length {} for a {size}-byte payload", sealed.first(), sealed.len()), replay);
                return;
            }
            let nonce = sealed[1..13].to_vec();
            if !nonces.insert(nonce.clone()) {
                out.violate("seal/nonce-repeated".to_string(), format!("nonce {} used twice under one key", hex(&nonce)), replay);
                return;
            }
            if let Some(p) = &prev_nonce {
                let a = u128::from_le_bytes({ let mut b = [0u8; 16]; b[..12].copy_from_slice(p); b });
                let c = u128::from_le_bytes({ let mut b = [0u8; 16]; b[..12].copy_from_slice(&nonce); b });
                let ab = u128::from_be_bytes({ let mut b = [0u8; 16]; b[4..].copy_from_slice(p); b });
                let cb = u128::from_be_bytes({ let mut b = [0u8; 16]; b[4..].copy_from_slice(&nonce); b });
                if c == a.wrapping_add(1) || cb == ab.wrapping_add(1) || nonce.iter().all(|x| *x == 0) {
                    out.violate("seal/nonce-not-random".to_string(), format!("nonce {} follows {} like a counter / is zero", hex(&nonce), hex(p)), replay);
                    return;
                }
            }
            prev_nonce = Some(nonce);
            queries.push(json!({"id": queries.len(), "secret": hex(&secret), "salt": hex(&salt), "version_id": hex(version_id.as_bytes()), "sealed": hex(&sealed)}));
            expect.push((plain.clone(), "open".into()));
            // the crate itself opens it again
            match key.unseal(version_id, sealed.clone()) {
                Ok(p) if p == plain => {}
                other => {
                    out.violate("unseal/round-trip".to_string(), format!("round trip failed: {:?}", other.map(|p| p.len()).map_err(|e| e.to_string())), replay);
                    return;
                }
            }
            if r > 0 || (!thorough && n > 3 && *size > 17 && i % 4 != 0) {
                continue;
            }
            // tamper sweep: every position x 4 patterns, every truncation, an appended byte
            for pos in 0..sealed.len() {
                for pat in 0..4 {
                    let mut t = sealed.clone();
                    let nb = match pat {
                        0 => t[pos] ^ 0x01,
                        1 => t[pos] ^ 0x80,
                        2 => 0x00,
                        _ => 0xff,
                    };
                    if nb == t[pos] {
                        continue;
                    }
                    t[pos] = nb;
                    out.count("tampered_values_tried", 1);
                    if let Ok(p) = key.unseal(version_id, t) {
                        let region = if pos == 0 { "format-byte" } else if pos < 13 { "nonce" } else if pos >= sealed.len() - 16 { "tag" } else { "ciphertext" };
                        out.violate(format!("tamper-accepted/{region}"), format!("a value with byte {pos} changed was opened ({} bytes returned)", p.len()), replay);
                        return;
                    }
                }
            }
            for len in 0..sealed.len() {
                out.count("tampered_values_tried", 1);
                if key.unseal(version_id, sealed[..len].to_vec()).is_ok() {
                    out.violate("tamper-accepted/truncation".to_string(), format!("a value truncated to {len} of {} bytes was opened", sealed.len()), replay);
                    return;
                }
            }
            let mut ext = sealed.clone();
            ext.push(0);
            if key.unseal(version_id, ext).is_ok() {
                out.violate("tamper-accepted/extension".to_string(), "a value with an appended byte was opened".to_string(), replay);
                return;
            }
            // mismatch cube
            let mut other_id = *version_id.as_bytes();
            let (bi, bb) = (rng.below(16), rng.below(8));
            other_id[bi] ^= 1 << bb;
            for (what, res) in [
                ("version-id", key.unseal(Uuid::from_bytes(other_id), sealed.clone())),
                ("version-id-nil", key.unseal(Uuid::nil(), sealed.clone())),
                ("secret", key_other_secret.unseal(version_id, sealed.clone())),
                ("salt", key_other_salt.unseal(version_id, sealed.clone())),
            ] {
                out.count("mismatches_tried", 1);
                if res.is_ok() {
                    out.violate(format!("mismatch-accepted/{what}"), format!("a value opened with a different {what}"), replay);
                    return;
                }
            }
            if let Some(kt) = &key_trimmed {
                out.count("mismatches_tried", 1);
                out.count("whitespace_secret_mismatches_tried", 1);
                if kt.unseal(version_id, sealed.clone()).is_ok() {
                    out.violate("mismatch-accepted/secret-differing-only-in-surrounding-whitespace".to_string(), "a value opened with the secret stripped of its leading / trailing whitespace".to_string(), replay);
                    return;
                }
            }
            // the reference must reject the same mismatches (checks the binding, e.g. iterations / AAD)
            queries.push(json!({"id": queries.len(), "secret": hex(&secret), "salt": hex(&salt), "version_id": hex(&other_id), "sealed": hex(&sealed)}));
            expect.push((vec![], "reject".into()));
            queries.push(json!({"id": queries.len(), "secret": hex(&secret), "salt": hex(&salt), "version_id": hex(version_id.as_bytes()), "sealed": hex(&sealed), "iterations": 100000}));
            expect.push((vec![], "reject".into()));
            queries.push(json!({"id": queries.len(), "secret": hex(&secret), "salt": hex(&salt), "version_id": hex(version_id.as_bytes()), "sealed": hex(&sealed), "app_id": 2}));
            expect.push((vec![], "reject".into()));
        }
        // a value sealed by the reference must open in the crate
        let nonce = rng.bytes(12);
        queries.push(json!({"id": queries.len(), "op": "seal", "secret": hex(&secret), "salt": hex(&salt), "version_id": hex(version_id.as_bytes()), "nonce": hex(&nonce), "plain": hex(&plain)}));
        expect.push((plain.clone(), format!("crate-opens:{}", hex(version_id.as_bytes()))));
        // and one with another format byte must not
        queries.push(json!({"id": queries.len(), "op": "seal", "format": 2, "secret": hex(&secret), "salt": hex(&salt), "version_id": hex(version_id.as_bytes()), "nonce": hex(&nonce), "plain": hex(&plain)}));
        expect.push((plain.clone(), format!("crate-rejects:{}", hex(version_id.as_bytes()))));
    }
    let answers = match oracle(&queries) {
        Ok(a) => a,
        Err(e) => {
            out.inconclusive = Some(e);
            return;
        }
    };
    for (a, (plain, mode)) in answers.iter().zip(expect.iter()) {
        out.count("reference_answers", 1);
        if mode == "open" {
            if a["ok"] != json!(true) || a["plain"].as_str().map(unhex).as_deref() != Some(plain.as_slice()) {
                out.violate("reference-cannot-open".to_string(), format!("the independent implementation does not open a value sealed by the crate to the original bytes: {}", a["why"]), replay);
                return;
            }
        } else if mode == "reject" {
            if a["ok"] == json!(true) {
                out.violate("reference-opens-with-mismatch".to_string(), "the independent implementation opens the value with a different version id / iteration count / app id: the binding is weaker than documented".to_string(), replay);
                return;
            }
        } else if let Some(vid) = mode.strip_prefix("crate-opens:") {
            let sealed = unhex(a["sealed"].as_str().unwrap_or(""));
            let v = Uuid::from_slice(&unhex(vid)).unwrap();
            match key.unseal(v, sealed) {
                Ok(p) if &p == plain => out.count("reference_sealed_values_opened", 1),
                other => {
                    out.violate("crate-cannot-open-reference-value".to_string(), format!("{:?}", other.map(|p| p.len()).map_err(|e| e.to_string())), replay);
                    return;
                }
            }
        } else if let Some(vid) = mode.strip_prefix("crate-rejects:") {
            let sealed = unhex(a["sealed"].as_str().unwrap_or(""));
            let v = Uuid::from_slice(&unhex(vid)).unwrap();
            if key.unseal(v, sealed).is_ok() {
                out.violate("tamper-accepted/format-byte".to_string(), "a correctly sealed value labelled format 2 was opened".to_string(), replay);
                return;
            }
        }
    }
    out.count("distinct_nonces", nonces.len() as u64);
    out.nontrivial = Some(fnv(format!("sweep{i}").as_bytes()));
    if i < 2 {
        out.sample = Some(json!({"secret_len": secret.len(), "payload_sizes": sizes, "values_sealed": nonces.len(), "reference_queries": queries.len()}));
    }
}

const MARKER: &str = "MARKER-7f3a9c-";

fn marker_payload(rng: &mut Rng, n: usize) -> Vec<u8> {
    format!("{{\"operations\":[{{\"Update\":{{\"uuid\":\"{}\",\"property\":\"{MARKER}prop{n}\",\"value\":\"{MARKER}value{n}\",\"timestamp\":\"2024-01-01T00:00:00Z\"}}}}]}}", rng.uuid()).into_bytes()
}

fn scan_leak(bytes: &[u8]) -> bool {
    let m = MARKER.as_bytes();
    bytes.windows(m.len()).any(|w| w == m)
}

/// What a backend stored: (label, salt, AAD version id, sealed bytes, expected plaintext).
type Stored = (String, Vec<u8>, Uuid, Vec<u8>, Vec<u8>);

fn backend_case(kind: Kind, i: u64, seed: u64, out: &mut CaseOut) {
    let mut rng = Rng::derive(seed, "c13-backend", i * 8 + kind as u64);
    let replay = json!({"stratum": format!("backend-{}", kind.name()), "index": i});
    let sig = |s: &str| format!("{}/{s}", kind.name());
    if kind == Kind::Cloud {
        set_random_source(Some(Box::new(|| Some(255))));
    }
    let mut b = match open(kind, 1) {
        Ok(b) => b,
        Err(e) => {
            out.inconclusive = Some(e);
            return;
        }
    };
    let mut srv = b.handles.pop().unwrap();
    // write a few versions and a snapshot
    let mut chain: Vec<(Uuid, Uuid, Vec<u8>)> = vec![];
    let mut parent = Uuid::nil();
    for n in 0..(2 + rng.below(3)) {
        let p = marker_payload(&mut rng, n);
        match b.drive(srv.add_version(parent, p.clone())) {
            Ok((AddVersionResult::Ok(v), _)) => {
                chain.push((v, parent, p));
                parent = v;
            }
            other => {
                out.inconclusive = Some(format!("add_version: {:?}", other.map(|x| x.0).map_err(|e| e.to_string())));
                return;
            }
        }
    }
    let snap_plain = format!("{{\"{}\":{{\"description\":\"{MARKER}snapshot\"}}}}", rng.uuid()).into_bytes();
    let snap_version = chain.last().unwrap().0;
    if let Err(e) = b.drive(srv.add_snapshot(snap_version, snap_plain.clone())) {
        out.inconclusive = Some(format!("add_snapshot: {e:#}"));
        return;
    }
    // collect what was stored
    let mut stored: Vec<Stored> = vec![];
    let mut all_bytes: Vec<(String, Vec<u8>)> = vec![];
    match kind {
        Kind::Http => {
            let st = b._http_state();
            let client_id = Uuid::from_u128(0x4854_5450_0000_4000_8000_0000_0000_0001);
            for r in st.requests.iter() {
                all_bytes.push((format!("{} {}", r.method, r.path), r.body.clone()));
                if r.method == "POST" && r.path.contains("/add-version/") {
                    let p = Uuid::parse_str(r.path.rsplit('/').next().unwrap_or("")).unwrap_or(Uuid::nil());
                    if let Some(c) = chain.iter().find(|c| c.1 == p) {
                        // HTTP versions are bound to the *parent* version id; salt = client id
                        stored.push((format!("http add-version body (parent {p})"), client_id.as_bytes().to_vec(), p, r.body.clone(), c.2.clone()));
                    }
                } else if r.method == "POST" && r.path.contains("/add-snapshot/") {
                    stored.push(("http add-snapshot body".into(), client_id.as_bytes().to_vec(), snap_version, r.body.clone(), snap_plain.clone()));
                }
            }
        }
        Kind::Cloud => {
            let w = b.world.as_ref().unwrap();
            let salt = w.store.get_raw("salt").map(|s| s.1).unwrap_or_default();
            for name in w.store.names() {
                let bytes = w.store.get_raw(&name).unwrap().1;
                all_bytes.push((name.clone(), bytes.clone()));
                if name.starts_with("v-") {
                    let c = Uuid::try_parse(&name[35..]).unwrap_or(Uuid::nil());
                    if let Some(e) = chain.iter().find(|e| e.0 == c) {
                        stored.push((format!("object {name}"), salt.clone(), c, bytes, e.2.clone()));
                    }
                } else if name.starts_with("s-") {
                    stored.push((format!("object {name}"), salt.clone(), snap_version, bytes, snap_plain.clone()));
                }
            }
        }
        _ => {
            // git: work tree files + every object in the object database
            let repo = b.dir.as_ref().unwrap().join(if kind == Kind::GitLocal { "repo" } else { "clone0" });
            let meta: Value = serde_json::from_slice(&std::fs::read(repo.join("meta")).unwrap_or_default()).unwrap_or(json!({}));
            let salt = base64_decode(meta["salt"].as_str().unwrap_or(""));
            for e in std::fs::read_dir(&repo).unwrap().flatten() {
                let name = e.file_name().to_string_lossy().to_string();
                if !e.file_type().map(|t| t.is_file()).unwrap_or(false) {
                    continue;
                }
                let bytes = std::fs::read(e.path()).unwrap_or_default();
                all_bytes.push((format!("file {name}"), bytes.clone()));
                if name.starts_with("v-") {
                    let c = Uuid::parse_str(name.rsplit('-').next().unwrap_or("")).unwrap_or(Uuid::nil());
                    if let Some(e2) = chain.iter().find(|e2| e2.0 == c) {
                        stored.push((format!("file {name}"), salt.clone(), c, bytes, e2.2.clone()));
                    }
                } else if name == "snapshot" {
                    let v: Value = serde_json::from_slice(&bytes).unwrap_or(json!({}));
                    let payload = base64_decode(v["payload"].as_str().unwrap_or(""));
                    stored.push(("file snapshot (payload)".into(), salt.clone(), snap_version, payload, snap_plain.clone()));
                }
            }
            if let Ok(o) = Command::new("git").current_dir(&repo).args(["cat-file", "--batch-all-objects", "--batch"]).output() {
                all_bytes.push(("git object database".into(), o.stdout));
            }
        }
    }
    if stored.len() < chain.len() + 1 {
        out.violate(sig("stored-values-not-found"), format!("expected {} stored sealed values, found {}", chain.len() + 1, stored.len()), replay);
        return;
    }
    // leak scan over every stored byte string
    for (label, bytes) in &all_bytes {
        out.count("stored_byte_strings_scanned", 1);
        if scan_leak(bytes) {
            out.violate(sig("plaintext-leak"), format!("task content appears in {label}"), replay);
            return;
        }
    }
    // the reference opens every stored value with the documented salt / AAD, and with nothing else
    let secret: &[u8] = if kind == Kind::Cloud { crate::cloud::SECRET } else { SECRET };
    let mut queries = vec![];
    for (n, (_, salt, vid, sealed, _)) in stored.iter().enumerate() {
        queries.push(json!({"id": 2 * n, "secret": hex(secret), "salt": hex(salt), "version_id": hex(vid.as_bytes()), "sealed": hex(sealed)}));
        let mut other = *vid.as_bytes();
        other[0] ^= 1;
        queries.push(json!({"id": 2 * n + 1, "secret": hex(secret), "salt": hex(salt), "version_id": hex(&other), "sealed": hex(sealed)}));
    }
    let answers = match oracle(&queries) {
        Ok(a) => a,
        Err(e) => {
            out.inconclusive = Some(e);
            return;
        }
    };
    let mut nonces = HashSet::new();
    for (n, (label, _, _, sealed, plain)) in stored.iter().enumerate() {
        let a = &answers[2 * n];
        if sealed.first() != Some(&1) {
            out.violate(sig("format-byte"), format!("{label} starts with {:?}", sealed.first()), replay);
            return;
        }
        if a["ok"] != json!(true) || a["plain"].as_str().map(unhex).as_deref() != Some(plain.as_slice()) {
            out.violate(sig("reference-cannot-open"), format!("{label}: the independent implementation (documented salt, AAD = 0x01 || version id) does not open it to the submitted bytes: {}", a["why"]), replay);
            return;
        }
        if answers[2 * n + 1]["ok"] == json!(true) {
            out.violate(sig("not-version-bound"), format!("{label} opens under another version id"), replay);
            return;
        }
        if !nonces.insert(sealed[1..13].to_vec()) {
            out.violate(sig("nonce-repeated"), format!("{label} re-uses a nonce"), replay);
            return;
        }
        out.count("stored_values_opened_by_reference", 1);
    }
    // tampering with what is stored: the Server call must fail, never return data
    let target = &chain[chain.len() - 1];
    let other_v = &chain[0];
    let tampers = ["flip", "truncate", "swap", "relabel"];
    for t in tampers {
        let undo: Box<dyn FnOnce()>;
        match kind {
            Kind::Http => {
                let st = b._http.as_ref().unwrap().state.clone();
                let other_body = stored.iter().find(|s| s.2 == other_v.1 && s.0.contains("add-version")).map(|s| s.3.clone()).unwrap_or_default();
                let other_parent = other_v.1;
                let tt = t.to_string();
                st.lock().unwrap().mutator = Some(Box::new(move |req, resp| {
                    if req.method == "GET" && req.path.contains("/get-child-version/") && resp.status == 200 {
                        match tt.as_str() {
                            "flip" => {
                                let n = resp.body.len();
                                resp.body[n / 2] ^= 0x20;
                            }
                            "truncate" => {
                                let n = resp.body.len();
                                resp.body.truncate(n - 1);
                            }
                            "swap" => resp.body = other_body.clone(),
                            _ => {
                                for h in resp.headers.iter_mut() {
                                    if h.0 == "X-Parent-Version-Id" {
                                        h.1 = if other_parent.is_nil() { Uuid::from_u128(5).to_string() } else { other_parent.to_string() };
                                    }
                                }
                            }
                        }
                    }
                }));
                let st2 = st.clone();
                undo = Box::new(move || st2.lock().unwrap().mutator = None);
            }
            Kind::Cloud => {
                let w = b.world.as_ref().unwrap();
                let name = crate::cloud::version_name(target.1, target.0);
                let orig = w.store.get_raw(&name).unwrap();
                let other_name = crate::cloud::version_name(other_v.1, other_v.0);
                let other_bytes = w.store.get_raw(&other_name).unwrap().1;
                let store = w.store.clone();
                match t {
                    "flip" => {
                        let mut v = orig.1.clone();
                        let n = v.len();
                        v[n / 2] ^= 0x20;
                        store.put_raw(&name, orig.0, v);
                    }
                    "truncate" => store.put_raw(&name, orig.0, orig.1[..orig.1.len() - 1].to_vec()),
                    "swap" => store.put_raw(&name, orig.0, other_bytes),
                    _ => {
                        // relabel: the same bytes under another child id
                        store.del_raw(&name);
                        store.put_raw(&crate::cloud::version_name(target.1, Uuid::from_u128(0xFEED)), orig.0, orig.1.clone());
                        // and make it the chain tail so that it is the "true child"
                        store.put_raw("latest", orig.0, Uuid::from_u128(0xFEED).as_simple().to_string().into_bytes());
                    }
                }
                let (store2, name2, orig2, tgt) = (w.store.clone(), name.clone(), orig.clone(), *target.0.as_bytes());
                let parent_of_target = target.1;
                undo = Box::new(move || {
                    store2.del_raw(&crate::cloud::version_name(parent_of_target, Uuid::from_u128(0xFEED)));
                    store2.put_raw(&name2, orig2.0, orig2.1);
                    store2.put_raw("latest", orig2.0, Uuid::from_bytes(tgt).as_simple().to_string().into_bytes());
                });
            }
            _ => {
                let repo = b.dir.as_ref().unwrap().join(if kind == Kind::GitLocal { "repo" } else { "clone0" });
                let name = format!("v-{}-{}", target.1.simple(), target.0.simple());
                let path = repo.join(&name);
                let orig = std::fs::read(&path).unwrap_or_default();
                let other_bytes = std::fs::read(repo.join(format!("v-{}-{}", other_v.1.simple(), other_v.0.simple()))).unwrap_or_default();
                let new_path = repo.join(format!("v-{}-{}", target.1.simple(), Uuid::from_u128(0xFEED).simple()));
                match t {
                    "flip" => {
                        let mut v = orig.clone();
                        let n = v.len();
                        v[n / 2] ^= 0x20;
                        std::fs::write(&path, v).unwrap();
                    }
                    "truncate" => std::fs::write(&path, &orig[..orig.len() - 1]).unwrap(),
                    "swap" => std::fs::write(&path, other_bytes).unwrap(),
                    _ => {
                        std::fs::remove_file(&path).unwrap();
                        std::fs::write(&new_path, &orig).unwrap();
                    }
                }
                let (p2, np2, o2) = (path.clone(), new_path.clone(), orig.clone());
                undo = Box::new(move || {
                    let _ = std::fs::remove_file(&np2);
                    std::fs::write(&p2, o2).unwrap();
                });
            }
        }
        let res = b.drive(srv.get_child_version(target.1));
        undo();
        out.count("backend_tamper_cases", 1);
        match res {
            Err(_) => {}
            Ok(GetVersionResult::NoSuchVersion) => {}
            Ok(GetVersionResult::Version { history_segment, version_id, .. }) => {
                // returning the genuine bytes of the genuinely requested version is fine (e.g. git
                // re-reading an intact copy); returning anything else is not
                if !(history_segment == target.2 && version_id == target.0) {
                    out.violate(sig(&format!("tampered-data-returned/{t}")), format!("after '{t}' of the stored version the call returned data ({} bytes, id {version_id})", history_segment.len()), replay);
                    return;
                }
            }
        }
    }
    // after undoing, the genuine data is served again
    match b.drive(srv.get_child_version(target.1)) {
        Ok(GetVersionResult::Version { history_segment, .. }) if history_segment == target.2 => {}
        other => {
            out.inconclusive = Some(format!("harness could not restore the stored data: {:?}", other.map(|_| ()).map_err(|e| e.to_string())));
            return;
        }
    }
    if kind == Kind::Cloud {
        set_random_source(None);
    }
    out.nontrivial = Some(fnv(format!("{}{i}", kind.name()).as_bytes()));
    if i < 1 {
        out.sample = Some(json!({"backend": kind.name(), "stored_values": stored.iter().map(|s| json!({"what": s.0, "bytes": s.3.len(), "first_byte": s.3.first()})).collect::<Vec<_>>(), "byte_strings_scanned": all_bytes.len()}));
    }
}

/// Two clients open the object store at the same time while it has no salt yet: every interleaving
/// of their requests (get salt / compare-and-swap salt / get salt). Whoever loses the creation race
/// must end up with the stored salt: what either of them writes afterwards must open, in the
/// reference, with the secret and the *stored* salt, and the other client must be able to read it.
fn salt_race_case(out: &mut CaseOut) {
    use crate::exec::{run_sched, DfsSource, Gates};
    use std::sync::atomic::{AtomicBool, Ordering};
    use std::sync::Arc;
    use taskchampion::server::verif::{CloudHandle, GateDecision, GateEvent, GateFn, MemService, MemStore};
    let replay = json!({"stratum": "salt-race", "index": 0});
    set_random_source(Some(Box::new(|| Some(255))));
    let mut dfs = DfsSource::new();
    let mut runs = 0u64;
    out.evaluations = 0;
    loop {
        dfs.begin_run();
        runs += 1;
        out.evaluations += 1;
        let store = MemStore::new();
        store.set_clock(1_700_000_000);
        let gates = Gates::new(2);
        let open = Arc::new(AtomicBool::new(false));
        let mk_gate = |gates: Gates, open: Arc<AtomicBool>| -> GateFn {
            Arc::new(move |ev: GateEvent| {
                let g = gates.clone();
                let open = open.clone();
                Box::pin(async move {
                    if !open.load(Ordering::SeqCst) {
                        g.pass(ev.client as usize, format!("{:?}:{}", ev.op, crate::cloud::classify(&ev.name))).await;
                    }
                    GateDecision::Proceed
                })
            })
        };
        let mut futs: Vec<Option<std::pin::Pin<Box<dyn std::future::Future<Output = Result<CloudHandle, taskchampion::Error>>>>>> = vec![];
        for c in 0..2u32 {
            let svc = MemService::new(store.clone(), c, Some(mk_gate(gates.clone(), open.clone())), 3);
            futs.push(Some(Box::pin(CloudHandle::new(svc, crate::cloud::SECRET.to_vec()))));
        }
        let o = run_sched(&gates, futs, &mut dfs, 200);
        open.store(true, Ordering::SeqCst);
        let mut replay = replay.clone();
        replay["schedule"] = json!(o.trace.iter().map(|t| format!("{}:{}", t.0, t.1)).collect::<Vec<_>>());
        let mut hs = vec![];
        for r in o.results {
            match r {
                Some(Ok(h)) => hs.push(h),
                other => {
                    out.violate("object-store/salt-race/open-failed".to_string(), format!("{:?}", other.map(|r| r.map(|_| ()).map_err(|e| e.to_string()))), replay);
                    set_random_source(None);
                    return;
                }
            }
        }
        let salt = store.get_raw("salt").map(|s| s.1).unwrap_or_default();
        // each client writes, the other reads
        let p0 = b"payload-written-by-client-0".to_vec();
        let p1 = b"payload-written-by-client-1".to_vec();
        let v0 = match block_on(hs[0].add_version(Uuid::nil(), p0.clone())) {
            Ok((AddVersionResult::Ok(v), _)) => v,
            other => {
                out.inconclusive = Some(format!("add_version after the race: {:?}", other.map(|r| r.0).map_err(|e| e.to_string())));
                set_random_source(None);
                return;
            }
        };
        let read1 = block_on(hs[1].get_child_version(Uuid::nil()));
        let v1 = match block_on(hs[1].add_version(v0, p1.clone())) {
            Ok((AddVersionResult::Ok(v), _)) => Some(v),
            _ => None,
        };
        let read0 = v1.map(|_| block_on(hs[0].get_child_version(v0)));
        for (who, res, want) in [("client 1 reading client 0's version", Some(read1), &p0), ("client 0 reading client 1's version", read0, &p1)] {
            match res {
                Some(Ok(GetVersionResult::Version { history_segment, .. })) if &history_segment == want => {}
                Some(other) => {
                    out.violate("object-store/salt-race/cannot-read-other-clients-data".to_string(), format!("{who}: {:?}", other.map(|_| "other data").map_err(|e| e.to_string())), replay);
                    set_random_source(None);
                    return;
                }
                None => {}
            }
        }
        // the reference opens both stored versions with the secret and the *stored* salt
        let mut queries = vec![];
        let mut wants = vec![];
        for (v, parent, plain) in [(Some(v0), Uuid::nil(), &p0), (v1, v0, &p1)] {
            if let Some(v) = v {
                if let Some((_, bytes)) = store.get_raw(&crate::cloud::version_name(parent, v)) {
                    queries.push(json!({"id": queries.len(), "secret": hex(crate::cloud::SECRET), "salt": hex(&salt), "version_id": hex(v.as_bytes()), "sealed": hex(&bytes)}));
                    wants.push(plain.clone());
                }
            }
        }
        match oracle(&queries) {
            Ok(ans) => {
                for (a, w) in ans.iter().zip(wants.iter()) {
                    if a["ok"] != json!(true) || a["plain"].as_str().map(unhex).as_deref() != Some(w.as_slice()) {
                        out.violate("object-store/salt-race/not-sealed-under-stored-salt".to_string(), format!("a version written after the salt-creation race does not open with the secret and the stored salt: {}", a["why"]), replay);
                        set_random_source(None);
                        return;
                    }
                    out.count("stored_values_opened_by_reference", 1);
                }
            }
            Err(e) => {
                out.inconclusive = Some(e);
                set_random_source(None);
                return;
            }
        }
        out.count("salt_race_schedules", 1);
        if !dfs.advance() {
            out.count("salt_race_exhausted", 1);
            break;
        }
        if runs >= 60 {
            break;
        }
    }
    set_random_source(None);
    out.nontrivial = Some(fnv(b"salt-race"));
    out.sample = Some(json!({"salt_race_schedules": runs}));
}

fn base64_decode(s: &str) -> Vec<u8> {
    let tbl = b"ABCDEFGHIJKLMNOPQRSTUVWXYZabcdefghijklmnopqrstuvwxyz0123456789+/";
    let mut out = vec![];
    let mut acc = 0u32;
    let mut bits = 0;
    for c in s.bytes() {
        if c == b'=' {
            break;
        }
        let Some(v) = tbl.iter().position(|x| *x == c) else { continue };
        acc = (acc << 6) | v as u32;
        bits += 6;
        if bits >= 8 {
            bits -= 8;
            out.push((acc >> bits) as u8);
            acc &= (1 << bits) - 1;
        }
    }
    out
}

pub fn run(ctx: &Ctx) -> Outcome {
    let mut acc = Acc::default();
    let seed = ctx.seed;
    let only = ctx.replay.as_ref().and_then(|r| r.get("stratum").and_then(|s| s.as_str()).map(|s| s.to_string()));
    let only_idx = ctx.replay.as_ref().and_then(|r| r.get("index").and_then(|s| s.as_u64()));
    let want = |s: &str| only.as_deref().map(|o| o == s).unwrap_or(true);
    let range = |n: u64| -> (u64, u64) { match only_idx { Some(i) => (i, i + 1), None => (0, n) } };
    let thorough = ctx.tier == crate::report::Tier::Thorough;
    if want("format-sweep") {
        let (lo, hi) = range(ctx.tier.pick(16, 400));
        run_cases(&mut acc, "format-sweep", hi - lo, |i| {
            let mut out = CaseOut::new();
            sweep_case(i + lo, seed, thorough, &mut out);
            out
        });
        if only.is_none() && !acc.truncated {
            acc.exhaustive_parts.push("format-sweep: for each sealed value of sizes {0,1,15,16,17,1000,random}: every byte position x {^0x01, ^0x80, =0x00, =0xFF}, every truncation length, one appended byte".into());
        }
    }
    if want("salt-race") {
        run_cases(&mut acc, "salt-race", 1, |_| {
            let mut out = CaseOut::new();
            salt_race_case(&mut out);
            out
        });
        if only.is_none() && acc.counter("salt_race_exhausted") > 0 {
            acc.exhaustive_parts.push("salt-race: every interleaving of two clients' object-store requests while both open a store that has no salt yet".into());
        }
    }
    for kind in [Kind::Http, Kind::Cloud, Kind::GitLocal, Kind::GitRemote] {
        let name = format!("backend-{}", kind.name());
        if !want(&name) {
            continue;
        }
        let git = matches!(kind, Kind::GitLocal | Kind::GitRemote);
        let (lo, hi) = range(if git { ctx.tier.pick(3, 60) } else { ctx.tier.pick(12, 400) });
        run_cases_threads(&mut acc, &name, hi - lo, if git { 4 } else { 6 }, |i| {
            let mut out = CaseOut::new();
            backend_case(kind, i + lo, seed, &mut out);
            out
        });
    }
    if only.is_none() {
        acc.require("tampered_values_tried", 20_000, "too few tampered values");
        acc.require("reference_answers", 200, "too few reference answers");
        acc.require("stored_values_opened_by_reference", 40, "too few stored values checked");
        acc.require("backend_tamper_cases", 40, "too few backend tamper cases");
    }
    Outcome {
        level: "exploration",
        rule: "format sweep: random secrets/salts/version ids, payload sizes {0,1,15,16,17,1000,random}; per value: format and nonce checks, reference opens it, crate opens reference-sealed values, exhaustive single-byte tamper (4 patterns per position) + every truncation + extension, mismatch cube (secret, salt, version id, nil id; reference additionally with 100000 iterations and app id 2); salt-race: all interleavings of two clients opening a salt-less object store at once, then writing and reading each other's data; backends: versions and a snapshot carrying planted task content written through the HTTP client, the object-store server and the git backend (local-only and with a remote), every stored byte string scanned for the markers, every stored sealed value opened by the reference with the documented salt/AAD and refused under another id, then flip / truncate / swap / relabel of the stored version must not yield data; distinct by case".into(),
        exhaustive: None,
        acc,
        assumptions: vec![
            "the oracle is tools/sealed_ref.py (RFC 8439 from scratch + hashlib PBKDF2), self-tested on the RFC vectors at every invocation".into(),
            "'fresh random nonce' is observed as never repeated under one key, not a counter and not zero; no finite run shows randomness".into(),
            "over HTTP a version is bound to its parent id (documented); a reply relabelled only in X-Version-Id is outside the binding and not alarmed".into(),
        ],
        extra: Default::default(),
    }
}

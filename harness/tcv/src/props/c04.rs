//! C04 — an interrupted sync loses nothing and can simply be repeated (engine E3).
//!
//! Per history: a fault-free reference run gives the converged result F and counts the N storage
//! calls and M server requests of the target sync. Then the same (deterministic) history is re-run
//! once per fault: every storage call k x {error, process stop (future dropped, SQLite reopened)}
//! and every server request j x {error before effect, effect then lost reply}. After the fault the
//! stored data must satisfy the replica invariant, the next sync must succeed (bounded: within two
//! attempts), and quiescence must reach F.

use serde_json::json;
use taskchampion::storage::Storage;
use taskchampion::Replica;
use uuid::Uuid;

use crate::exec::{block_on, block_on_until};
use crate::model::{self, Tasks};
use crate::obs::{Dump, FaultKind, ObservedStorage};
use crate::report::{run_cases, Acc, CaseOut, Ctx, Outcome};
use crate::rng::{fnv, Rng};
use crate::srv::{ChainRef, SrvFault};
use crate::world::*;

#[derive(Clone, Copy, Debug, PartialEq)]
pub enum Fault {
    None,
    Storage(u64, FaultKind),
    Server(u64, SrvFault),
}

pub fn dump_storage(st: &mut dyn Storage) -> Result<Dump, String> {
    let mut txn = block_on(st.txn()).map_err(|e| e.to_string())?;
    Ok(Dump {
        tasks: model::tasks_from_vec(block_on(txn.all_tasks()).map_err(|e| e.to_string())?),
        unsynced: block_on(txn.unsynced_operations()).map_err(|e| e.to_string())?,
        base: block_on(txn.base_version()).map_err(|e| e.to_string())?,
        ws: block_on(txn.get_working_set()).map_err(|e| e.to_string())?,
    })
}

struct RunOut {
    final_tasks: Tasks,
    storage_calls: u64,
    server_requests: u64,
    names: Vec<&'static str>,
    versions: usize,
    dup_ops: u64,
    fault_hit: bool,
    target_pushed: usize,
    target_pulled: usize,
    /// (interleaved stratum) had the target's push already reached the server when the other replica got in?
    target_on_chain: bool,
}

fn invariant_of(d: &Dump, chain: &ChainRef, who: &str) -> Result<(), String> {
    let c = chain.0.borrow();
    let mut expect = c.replay_to_version(d.base).map_err(|e| format!("{who}: base version: {e}"))?;
    for op in &d.unsynced {
        if let Some(m) = model::from_operation(op) {
            model::apply(&mut expect, &m);
        }
    }
    if expect != d.tasks {
        return Err(format!("{who}: stored tasks != replay(chain..base) ⊕ unsynced: {}", model::diff_tasks(&d.tasks, &expect)));
    }
    Ok(())
}

/// Run `prior`, then the target sync of replica 0 under `fault` (and `extra_faults` on the next
/// attempts), then recover and quiesce.
fn run_once(prior: &[Act], n: usize, kind0: StoreKind, faults: &[Fault], interleave: u8) -> Result<RunOut, (String, String)> {
    let chain = ChainRef::new();
    if interleave == 3 {
        // fresh-from-snapshot stratum: the first version added gets a snapshot
        chain.0.borrow_mut().urgency_script.push_back(taskchampion::server::SnapshotUrgency::High);
    }
    let mut reps: Vec<R> = (0..n).map(|i| new_replica(i, if i == 0 { kind0 } else { StoreKind::Mem }, &chain)).collect();
    let fail = |s: &str, m: String| (s.to_string(), m);
    for act in prior {
        match act {
            Act::Commit { r, ops } => {
                let conc = concretise(&mut reps[*r].rep, ops).map_err(|e| fail("harness", e))?;
                block_on(reps[*r].rep.commit_operations(conc)).map_err(|e| fail("harness", e.to_string()))?;
            }
            Act::Sync { r } => sync(&mut reps[*r], &chain, false).map_err(|e| fail("harness", format!("prior sync: {e:#}")))?,
        }
    }
    if interleave == 3 {
        // the server has reclaimed the versions its snapshot covers (docs/src/snapshots.md)
        let mut c = chain.0.borrow_mut();
        match c.snapshots.last().map(|(v, _, _)| *v).and_then(|v| c.index_of(v)) {
            Some(idx) => c.first_available = idx + 1,
            None => return Err(fail("harness", "no snapshot was uploaded in the prior history".into())),
        }
    }
    let v0 = chain.0.borrow().versions.len();
    // one of the target's pending property updates (for the interleaved stratum)
    let target_update: Option<(Uuid, String, chrono::DateTime<chrono::Utc>)> = reps[0].ctl.last().unsynced.iter().rev().find_map(|o| match o {
        taskchampion::Operation::Update { uuid, property, value: Some(_), timestamp, .. } => Some((*uuid, property.clone(), *timestamp)),
        _ => None,
    });
    let mut target_on_chain = false;
    if interleave == 2 && n >= 2 {
        // alternate reference: the other replica's change happens *before* the target sync
        if let Some((u, prop, t)) = target_update.clone() {
            sync(&mut reps[1], &chain, false).map_err(|e| fail("harness", format!("interleaved sync: {e:#}")))?;
            let ops = concretise(&mut reps[1].rep, &[AbsOp::Set(u, prop, "R1-late".into(), t - chrono::Duration::seconds(1))]).map_err(|e| fail("harness", e))?;
            block_on(reps[1].rep.commit_operations(ops)).map_err(|e| fail("harness", e.to_string()))?;
            sync(&mut reps[1], &chain, false).map_err(|e| fail("harness", format!("interleaved sync: {e:#}")))?;
        }
    }
    let mut storage_calls = 0;
    let mut server_requests = 0;
    let mut names = vec![];
    let mut fault_hit = false;
    let mut attempts_after_faults = 0;
    let mut idx = 0;
    // the target sync, then retries; faults[idx] applies to attempt idx
    loop {
        let f = faults.get(idx).copied().unwrap_or(Fault::None);
        chain.0.borrow_mut().reset_requests();
        chain.0.borrow_mut().faults.clear();
        let r0 = &mut reps[0];
        match f {
            Fault::Storage(k, kind) => r0.ctl.arm(Some((k, kind)), idx == 0),
            _ => r0.ctl.arm(None, idx == 0),
        }
        if let Fault::Server(j, kind) = f {
            chain.0.borrow_mut().faults.insert((0, j), kind);
        }
        chain.begin_sync(0);
        let ctl = r0.ctl.clone();
        let res = {
            let fut = r0.rep.sync(&mut r0.server, false);
            block_on_until(fut, || ctl.parked())
        };
        let (calls, hit, nm) = r0.ctl.disarm();
        let reqs = chain.0.borrow().requests.get(&0).copied().unwrap_or(0);
        if idx == 0 {
            storage_calls = calls;
            server_requests = reqs;
            names = nm;
        }
        let srv_hit = chain.0.borrow().events.iter().any(|e| matches!(e, crate::srv::Ev::Fault { .. }));
        match f {
            Fault::None => {}
            Fault::Storage(..) => fault_hit |= hit,
            Fault::Server(..) => fault_hit |= srv_hit,
        }
        let stopped = res.is_none();
        if stopped && kind0 == StoreKind::Sqlite {
            // process stop: the replica object is gone; reopen the directory in a fresh handle
            let dir = reps[0].dir.take().expect("sqlite dir");
            let old = std::mem::replace(&mut reps[0].rep, Replica::new(ObservedStorage::new(DynStorage(Box::new(taskchampion::storage::inmemory::InMemoryStorage::new()))).0));
            drop(old);
            let mut fresh = open_storage(StoreKind::Sqlite, Some(dir.path()));
            let d = dump_storage(&mut fresh).map_err(|e| fail("harness", e))?;
            invariant_of(&d, &chain, "reopened replica 0").map_err(|e| fail("invariant-after-stop", e))?;
            let (obs, ctl) = ObservedStorage::new(fresh);
            ctl.0.lock().unwrap().last = Some(d);
            reps[0].rep = Replica::new(obs);
            reps[0].ctl = ctl;
            reps[0].dir = Some(dir);
        }
        // Optionally another replica gets in between the (possibly interrupted) first attempt and
        // the retry: it pulls whatever reached the server, then overrides one of the target's
        // properties with an *earlier* timestamp (a causally later change), and pushes.
        if interleave == 1 && idx == 0 && n >= 2 {
            if let Some((u, prop, t)) = target_update.clone() {
                target_on_chain = {
                    let c = chain.0.borrow();
                    // (any version of the target counts: the chosen update itself may have lost
                    // against an incoming one and been dropped from what was pushed)
                    (v0..c.versions.len()).any(|k| c.versions[k].client == 0)
                };
                chain.0.borrow_mut().faults.clear();
                sync(&mut reps[1], &chain, false).map_err(|e| fail("harness", format!("interleaved sync: {e:#}")))?;
                let ops = concretise(&mut reps[1].rep, &[AbsOp::Set(u, prop, "R1-late".into(), t - chrono::Duration::seconds(1))]).map_err(|e| fail("harness", e))?;
                block_on(reps[1].rep.commit_operations(ops)).map_err(|e| fail("harness", e.to_string()))?;
                sync(&mut reps[1], &chain, false).map_err(|e| fail("harness", format!("interleaved sync: {e:#}")))?;
            }
        }
        // stored data satisfies the replica invariant immediately after the interruption
        let d = reps[0].ctl.last();
        invariant_of(&d, &chain, "replica 0").map_err(|e| fail(if matches!(f, Fault::None) { "invariant-after-sync" } else { "invariant-after-fault" }, e))?;
        match (&res, f) {
            (Some(Ok(())), Fault::None) => break,
            // Ok despite an injected fault is judged on the resulting state (invariant above,
            // converged result below), not as a violation in itself
            (Some(Ok(())), _) => break,
            (Some(Err(e)), Fault::None) => {
                attempts_after_faults += 1;
                if attempts_after_faults >= 2 {
                    let class = if is_out_of_sync(e) { "out-of-sync" } else { "other" };
                    return Err(fail(&format!("no-recovery/{class}"), format!("sync still fails {attempts_after_faults} attempts after faults stopped: {e:#}")));
                }
            }
            (Some(Err(_)), _) | (None, _) => {}
        }
        idx += 1;
        if idx > faults.len() + 3 {
            return Err(fail("no-recovery/other", "sync did not succeed after faults stopped".into()));
        }
    }
    let target_pushed = chain.0.borrow().versions[v0..].iter().filter(|v| v.client == 0).count();
    let target_pulled = chain.0.borrow().events.iter().filter(|e| matches!(e, crate::srv::Ev::GetChild { client: 0, found: Some(_), .. })).count();
    chain.0.borrow_mut().faults.clear();
    quiesce(&mut reps, &chain, 8).map_err(|e| fail(if e.to_lowercase().contains("out of sync") { "quiescence/out-of-sync" } else { "quiescence/other" }, e))?;
    let final_tasks = check_converged(&mut reps, &chain).map_err(|e| fail("diverged-at-quiescence", e))?;
    // duplicates on the chain (evidence; judged on state)
    let mut seen = std::collections::HashSet::new();
    let mut dup = 0;
    {
        let c = chain.0.borrow();
        for i in 0..c.versions.len() {
            for o in c.ops_of(i) {
                if !seen.insert(o.short()) {
                    dup += 1;
                }
            }
        }
    }
    let versions = chain.0.borrow().versions.len();
    Ok(RunOut { final_tasks, storage_calls, server_requests, names, versions, dup_ops: dup, fault_hit, target_pushed, target_pulled, target_on_chain })
}

fn gen_prior(rng: &mut Rng, n: usize, big: bool) -> Vec<Act> {
    let cfg = GenCfg { replicas: n, tasks: 1 + rng.below(2), props: 1 + rng.below(3), actions: 0, max_batch: 3, big_per_mille: if big { 600 } else { 0 }, sync_per_cent: 0 };
    let mut g = Gen::new(rng.clone(), cfg);
    let mut h = vec![];
    let u0 = g.uuids[0];
    h.push(Act::Commit { r: 0, ops: vec![AbsOp::Set(u0, "p0".into(), "0".into(), ts(0))] });
    for r in 0..n {
        h.push(Act::Sync { r });
    }
    // incoming versions for replica 0
    for _ in 0..(1 + rng.below(2)) {
        let r = 1 + rng.below(n - 1);
        let ops = (0..1 + rng.below(3)).map(|_| g.abs_op(r)).collect();
        h.push(Act::Commit { r, ops });
        h.push(Act::Sync { r });
    }
    // outgoing changes on replica 0 (and pending ones elsewhere)
    let k = 1 + rng.below(if big { 4 } else { 6 });
    h.push(Act::Commit { r: 0, ops: (0..k).map(|_| g.abs_op(0)).collect() });
    if rng.chance(1, 2) {
        let r = 1 + rng.below(n - 1);
        h.push(Act::Commit { r, ops: vec![g.abs_op(r)] });
    }
    *rng = g.rng;
    h
}

/// Prior history for the fresh-from-snapshot stratum: replica 0 does nothing; replica 1 builds a
/// few tasks and syncs (the server asks for, and stores, a snapshot of that version), then
/// optionally more versions follow.
fn gen_prior_fresh(rng: &mut Rng, n: usize) -> Vec<Act> {
    let cfg = GenCfg { replicas: n, tasks: 1 + rng.below(4), props: 1 + rng.below(3), actions: 0, max_batch: 3, big_per_mille: 0, sync_per_cent: 0 };
    let mut g = Gen::new(rng.clone(), cfg);
    let mut h = vec![];
    let mut ops: Vec<AbsOp> = g.uuids.clone().into_iter().map(|u| AbsOp::Set(u, "p0".into(), "0".into(), ts(0))).collect();
    for _ in 0..g.rng.below(4) {
        ops.push(g.abs_op(1));
    }
    h.push(Act::Commit { r: 1, ops });
    h.push(Act::Sync { r: 1 });
    for _ in 0..g.rng.below(3) {
        let ops = (0..1 + g.rng.below(3)).map(|_| g.abs_op(1)).collect();
        h.push(Act::Commit { r: 1, ops });
        h.push(Act::Sync { r: 1 });
    }
    *rng = g.rng;
    h
}

fn sweep(tag: &'static str, i: u64, seed: u64, big: bool, sqlite: bool, seqs: bool, interleave: bool, out: &mut CaseOut) {
    let fresh = tag == "c04-fresh-from-snapshot";
    let mode: u8 = if fresh { 3 } else if interleave { 1 } else { 0 };
    let mut rng = Rng::derive(seed, tag, i);
    let n = 2 + rng.below(2);
    let prior = if fresh { gen_prior_fresh(&mut rng, n) } else { gen_prior(&mut rng, n, big) };
    let kind0 = if sqlite { StoreKind::Sqlite } else { StoreKind::Mem };
    let replay = json!({"stratum": tag, "index": i, "prior": show_history(&prior)});
    out.evaluations = 0;
    let reference = match run_once(&prior, n, kind0, &[], mode) {
        Ok(r) => r,
        Err((sig, msg)) => {
            if sig == "harness" {
                out.inconclusive = Some(msg);
            } else {
                out.violate(format!("fault-free/{sig}"), msg, replay);
            }
            return;
        }
    };
    out.evaluations += 1;
    let reference_before = if interleave {
        match run_once(&prior, n, kind0, &[], 2) {
            Ok(r) => r,
            Err((_, msg)) => {
                out.inconclusive = Some(format!("alternate reference run failed: {msg}"));
                return;
            }
        }
    } else {
        RunOut { final_tasks: Tasks::new(), storage_calls: 0, server_requests: 0, names: vec![], versions: 0, dup_ops: 0, fault_hit: false, target_pushed: 0, target_pulled: 0, target_on_chain: false }
    };
    if fresh {
        out.count("fresh_replica_targets", 1);
    } else if reference.target_pushed == 0 || reference.target_pulled == 0 {
        // the target sync must both pull and push to be interesting; count it but do not sweep
        out.count("targets_without_both_directions", 1);
    }
    if reference.target_pushed >= 2 {
        out.count("multi_batch_targets", 1);
    }
    let mut plan: Vec<Vec<Fault>> = vec![];
    if seqs {
        // random sequences of up to 3 consecutive faults on consecutive attempts
        for _ in 0..12 {
            let len = 1 + rng.below(3);
            let mut s = vec![];
            for _ in 0..len {
                s.push(if rng.chance(1, 2) {
                    Fault::Storage(1 + rng.below(reference.storage_calls.max(1) as usize) as u64, if rng.chance(1, 2) { FaultKind::Err } else { FaultKind::Park })
                } else {
                    Fault::Server(1 + rng.below(reference.server_requests.max(1) as usize) as u64, if rng.chance(1, 2) { SrvFault::Before } else { SrvFault::After })
                });
            }
            plan.push(s);
        }
    } else {
        for k in 1..=reference.storage_calls {
            plan.push(vec![Fault::Storage(k, FaultKind::Err)]);
            plan.push(vec![Fault::Storage(k, FaultKind::Park)]);
        }
        for j in 1..=reference.server_requests {
            plan.push(vec![Fault::Server(j, SrvFault::Before)]);
            plan.push(vec![Fault::Server(j, SrvFault::After)]);
        }
    }
    let mut hit = 0u64;
    for faults in &plan {
        out.evaluations += 1;
        match run_once(&prior, n, kind0, faults, mode) {
            Ok(r) => {
                if r.fault_hit {
                    hit += 1;
                }
                // interleaved stratum: which fault-free run is the yardstick depends on whether the
                // target's update had reached the server when the other replica got in
                let yard = if interleave && !r.target_on_chain { &reference_before } else { &reference };
                if r.final_tasks != yard.final_tasks {
                    let f0 = faults[0];
                    let class = match f0 {
                        Fault::Storage(_, FaultKind::Err) => "storage-error",
                        Fault::Storage(..) => "process-stop",
                        Fault::Server(_, SrvFault::Before) => "server-error-before",
                        Fault::Server(..) => "server-reply-lost",
                        Fault::None => "none",
                    };
                    let where_ = match f0 {
                        Fault::Storage(k, _) => format!("storage call {k} ({})", reference.names.get(k as usize - 1).copied().unwrap_or("?")),
                        Fault::Server(j, _) => format!("server request {j}"),
                        Fault::None => String::new(),
                    };
                    let mut rp = replay.clone();
                    rp["faults"] = json!(format!("{faults:?}"));
                    out.violate(format!("result-differs/{class}"), format!("after faults {faults:?} at {where_} the converged state differs from the uninterrupted run: {}", model::diff_tasks(&r.final_tasks, &yard.final_tasks)), rp);
                    return;
                }
                out.count("duplicate_ops_on_chain", r.dup_ops.saturating_sub(reference.dup_ops));
                let _ = r.versions;
            }
            Err((sig, msg)) => {
                if sig == "harness" {
                    out.inconclusive = Some(msg);
                } else {
                    let mut rp = replay.clone();
                    rp["faults"] = json!(format!("{faults:?}"));
                    out.violate(sig, format!("faults {faults:?}: {msg}"), rp);
                }
                return;
            }
        }
    }
    out.count("fault_points_hit", hit);
    out.count("storage_calls_in_target", reference.storage_calls);
    out.count("server_requests_in_target", reference.server_requests);
    out.count("histories_swept", 1);
    if (reference.target_pushed >= 1 && reference.target_pulled >= 1) || fresh {
        out.nontrivial = Some(fnv(format!("{:?}", show_history(&prior)).as_bytes()));
    }
    if i < 2 {
        out.sample = Some(json!({"prior": show_history(&prior), "storage_calls": reference.storage_calls, "storage_call_names": reference.names, "server_requests": reference.server_requests, "fault_runs": plan.len(), "fault_points_hit": hit, "pushed": reference.target_pushed, "pulled": reference.target_pulled}));
    }
}

/// Corpus: F4c shape — first batch cancels entirely; a fault between batches.
fn corpus_prior() -> Vec<Act> {
    let t = Uuid::from_u128(0xC04_0001);
    let big = |tag: &str| {
        let mut s = format!("{tag}-");
        s.extend(std::iter::repeat('w').take(1_000_000));
        s
    };
    vec![
        Act::Commit { r: 0, ops: vec![AbsOp::Create(t)] },
        Act::Sync { r: 0 },
        Act::Sync { r: 1 },
        Act::Commit { r: 1, ops: vec![AbsOp::Set(t, "p".into(), big("B"), ts(100))] },
        Act::Sync { r: 1 },
        Act::Commit { r: 0, ops: vec![AbsOp::Set(t, "p".into(), big("A"), ts(5)), AbsOp::Set(t, "q".into(), "A-q".into(), ts(5)), AbsOp::Set(t, "r".into(), big("A2"), ts(5)), AbsOp::Set(t, "s".into(), "A-s".into(), ts(5))] },
    ]
}

pub fn run(ctx: &Ctx) -> Outcome {
    let mut acc = Acc::default();
    let seed = ctx.seed;
    let only = ctx.replay.as_ref().and_then(|r| r.get("stratum").and_then(|s| s.as_str()).map(|s| s.to_string()));
    let only_idx = ctx.replay.as_ref().and_then(|r| r.get("index").and_then(|s| s.as_u64()));
    let want = |s: &str| only.as_deref().map(|o| o == s).unwrap_or(true);
    let range = |n: u64| -> (u64, u64) { match only_idx { Some(i) => (i, i + 1), None => (0, n) } };
    if want("corpus") {
        run_cases(&mut acc, "corpus", 1, |_| {
            let mut out = CaseOut::new();
            out.evaluations = 0;
            let prior = corpus_prior();
            let replay = json!({"stratum": "corpus", "index": 0});
            match run_once(&prior, 2, StoreKind::Mem, &[], 0) {
                Ok(reference) => {
                    out.evaluations += 1;
                    out.count("multi_batch_targets", (reference.target_pushed >= 2) as u64);
                    for j in 1..=reference.server_requests {
                        for kind in [SrvFault::Before, SrvFault::After] {
                            out.evaluations += 1;
                            match run_once(&prior, 2, StoreKind::Mem, &[Fault::Server(j, kind)], 0) {
                                Ok(r) if r.final_tasks == reference.final_tasks => {}
                                Ok(r) => {
                                    out.violate("result-differs/server-fault-multi-batch".to_string(), format!("fault at request {j} ({kind:?}): {}", model::diff_tasks(&r.final_tasks, &reference.final_tasks)), replay.clone());
                                    return out;
                                }
                                Err((sig, msg)) => {
                                    out.violate(sig, msg, replay.clone());
                                    return out;
                                }
                            }
                        }
                    }
                    out.nontrivial = Some(7);
                }
                Err((sig, msg)) => out.violate(format!("fault-free/{sig}"), msg, replay),
            }
            out
        });
    }
    if want("c04-sweep") {
        let (lo, hi) = range(ctx.tier.pick(40, 2000));
        run_cases(&mut acc, "c04-sweep", hi - lo, |i| {
            let mut out = CaseOut::new();
            sweep("c04-sweep", i + lo, seed, false, false, false, false, &mut out);
            out
        });
        if only.is_none() && !acc.truncated {
            acc.exhaustive_parts.push("c04-sweep: every storage call x {error, process stop} and every server request x {error before effect, effect then lost reply} of the target sync, for each history".into());
        }
    }
    if want("c04-big") {
        let (lo, hi) = range(ctx.tier.pick(6, 200));
        run_cases(&mut acc, "c04-big", hi - lo, |i| {
            let mut out = CaseOut::new();
            sweep("c04-big", i + lo, seed, true, false, false, false, &mut out);
            out
        });
    }
    if want("c04-sqlite") {
        let (lo, hi) = range(ctx.tier.pick(6, 300));
        run_cases(&mut acc, "c04-sqlite", hi - lo, |i| {
            let mut out = CaseOut::new();
            sweep("c04-sqlite", i + lo, seed, false, true, false, false, &mut out);
            out
        });
    }
    if want("c04-fresh-from-snapshot") {
        // a brand-new replica whose first sync starts from the server's snapshot (older versions
        // reclaimed), interrupted at every storage call and server request
        let (lo, hi) = range(ctx.tier.pick(24, 1500));
        run_cases(&mut acc, "c04-fresh-from-snapshot", hi - lo, |i| {
            let mut out = CaseOut::new();
            sweep("c04-fresh-from-snapshot", i + lo, seed, false, (i + lo) % 3 == 2, false, false, &mut out);
            out
        });
    }
    if want("c04-interleaved") {
        // another replica syncs, overrides one of the target's properties with an earlier timestamp
        // and pushes between the (interrupted) first attempt and the retry
        let (lo, hi) = range(ctx.tier.pick(30, 1500));
        run_cases(&mut acc, "c04-interleaved", hi - lo, |i| {
            let mut out = CaseOut::new();
            sweep("c04-interleaved", i + lo, seed, false, false, false, true, &mut out);
            out
        });
    }
    if want("c04-sequences") {
        let (lo, hi) = range(ctx.tier.pick(40, 3000));
        run_cases(&mut acc, "c04-sequences", hi - lo, |i| {
            let mut out = CaseOut::new();
            sweep("c04-sequences", i + lo, seed, false, false, true, false, &mut out);
            out
        });
    }
    if only.is_none() {
        acc.require("fault_points_hit", 500, "too few fault points actually reached");
        acc.require("multi_batch_targets", 1, "no multi-batch target sync");
        acc.require("histories_swept", 20, "too few histories swept");
    }
    Outcome {
        level: "fault_enumeration",
        rule: "for each seeded history (2-3 replicas; target sync of replica 0 with incoming and outgoing versions; big-value stratum with several batches; SQLite stratum where a stop also reopens the database in a fresh handle; interleaved stratum where another replica writes and syncs between the interrupted and the repeated sync; fresh-from-snapshot stratum where a brand-new replica's first sync starts from the server's snapshot with the covered versions reclaimed): fault-free reference run, then one re-run per storage call x {error, stop} and per server request x {fail before, perform then lose reply}, plus a stratum of random sequences of 1-3 consecutive faults, and a stratum in which another replica pulls, overrides one of the target's properties with an earlier timestamp and pushes between the interrupted attempt and the retry; evaluations = runs (reference + faulted); non-trivial = target sync both pulled and pushed; distinct by prior history".into(),
        exhaustive: None,
        acc,
        assumptions: vec![
            "process stop = the sync future is dropped at a storage call (in-memory: transaction dropped; SQLite: replica dropped and the directory reopened); power loss is out of reach".into(),
            "'never permanently out of sync' in bounded form: success within 2 sync attempts after faults stop".into(),
            "'none takes effect twice' is judged on the converged state; duplicate operations on the chain are counted as evidence".into(),
        ],
        extra: Default::default(),
    }
}

//! C01 — replicas converge after any history of edits and syncs (engine E1).
//!
//! Oracle: the harness chain server keeps the accepted versions; the harness decodes them itself
//! and applies the documented semantics to an empty map. After every action the replica invariant
//! `stored tasks == replay(chain..base) ⊕ unsynced` is checked on the commit-time dump; at
//! quiescence every replica must equal the chain replay and be based on the chain head.

use serde_json::json;
use std::time::Instant;

use crate::model;
use crate::report::{run_cases, Acc, CaseOut, Ctx, Outcome, Tier};
use crate::rng::{fnv, Rng};
use crate::srv::{ChainRef, Ev};
use crate::world::*;

pub struct HistCfg {
    pub replicas: usize,
    pub kinds: Vec<StoreKind>,
}

/// Execute one history under the C01 monitors. Shared with other properties' checks.
pub fn run_history(tag: &str, index: u64, n_replicas: usize, kinds: &[StoreKind], hist: &[Act], out: &mut CaseOut) {
    run_history_urgency(tag, index, n_replicas, kinds, hist, None, out)
}

/// As `run_history`; with `urgency` the server asks for snapshots, stores what it is given and
/// offers the latest one to whoever asks (replicas that are still empty).
pub fn run_history_urgency(tag: &str, index: u64, n_replicas: usize, kinds: &[StoreKind], hist: &[Act], urgency: Option<taskchampion::server::SnapshotUrgency>, out: &mut CaseOut) {
    let chain = ChainRef::new();
    if let Some(u) = urgency {
        chain.0.borrow_mut().urgency_default = u;
    }
    let mut reps: Vec<R> = (0..n_replicas).map(|i| new_replica(i, kinds[i % kinds.len()], &chain)).collect();
    let replay = json!({"stratum": tag, "index": index, "replicas": n_replicas, "history": show_history(hist)});
    let mut conflict_syncs = 0u64;
    let mut multi_batch = 0u64;
    let mut multi_batch_rebased = 0u64;
    let mut executed: Vec<String> = vec![];
    for (step, act) in hist.iter().enumerate() {
        match act {
            Act::Commit { r, ops } => {
                let rr = &mut reps[*r];
                let conc = match concretise(&mut rr.rep, ops) {
                    Ok(c) => c,
                    Err(e) => {
                        out.inconclusive = Some(e);
                        return;
                    }
                };
                executed.push(format!("R{r} commit {:?}", show_ops(&conc)));
                if let Err(e) = crate::exec::block_on(rr.rep.commit_operations(conc)) {
                    out.violate("commit-error", format!("step {step}: commit on replica {r} failed: {e:#}"), replay.clone());
                    return;
                }
                out.count("commits", 1);
            }
            Act::Sync { r } => {
                let rr = &mut reps[*r];
                let pending: Vec<_> = mops_of(&rr.ctl.last().unsynced);
                let ev_before = chain.0.borrow().events.len();
                executed.push(format!("R{r} sync"));
                let res = sync(rr, &chain, false);
                out.count("syncs", 1);
                if let Err(e) = res {
                    let class = if is_out_of_sync(&e) { "out-of-sync" } else { "other" };
                    out.violate(format!("sync-error/{class}"), format!("step {step}: sync of replica {r} returned Err against a correct server: {e:#}"), replay.clone());
                    return;
                }
                // observations: incoming versions that touch a task with pending local changes
                let c = chain.0.borrow();
                let sc = c.sync_calls.get(r).copied().unwrap_or(0);
                let mut incoming = 0u64;
                let mut conflict = false;
                for ev in &c.events[ev_before..] {
                    if let Ev::GetChild { found: Some(id), .. } = ev {
                        incoming += 1;
                        if let Some(idx) = c.index_of(*id) {
                            for o in c.ops_of(idx) {
                                if pending.iter().any(|p| p.uuid() == o.uuid()) {
                                    conflict = true;
                                }
                            }
                        }
                    }
                }
                drop(c);
                let added = versions_added_by(&chain, *r, sc) as u64;
                out.count("versions_pulled", incoming);
                out.count("versions_pushed", added);
                if conflict {
                    conflict_syncs += 1;
                }
                if added >= 2 {
                    multi_batch += 1;
                    if incoming > 0 {
                        multi_batch_rebased += 1;
                    }
                }
            }
        }
        let r = match act {
            Act::Commit { r, .. } | Act::Sync { r } => *r,
        };
        if let Err(e) = check_invariant(&reps[r], &chain) {
            let kind = match act {
                Act::Commit { .. } => "after-commit",
                Act::Sync { .. } => "after-sync",
            };
            out.violate(format!("replica-invariant/{kind}"), format!("step {step}: {e}; executed: {executed:?}"), replay.clone());
            return;
        }
        out.count("invariant_checks", 1);
    }
    match quiesce(&mut reps, &chain, 8) {
        Ok(rounds) => out.count("quiescence_rounds", rounds as u64),
        Err(e) => {
            let class = if e.to_lowercase().contains("out of sync") { "out-of-sync" } else if e.contains("no quiescence") { "no-quiescence" } else { "sync-error" };
            out.violate(format!("quiescence/{class}"), format!("{e}; executed: {executed:?}"), replay.clone());
            return;
        }
    }
    match check_converged(&mut reps, &chain) {
        Ok(_) => out.count("converged_checks", 1),
        Err(e) => {
            out.violate("diverged-at-quiescence", format!("{e}; executed: {executed:?}"), replay.clone());
            return;
        }
    }
    out.count("conflict_syncs", conflict_syncs);
    out.count("multi_batch_syncs", multi_batch);
    out.count("multi_batch_syncs_with_incoming", multi_batch_rebased);
    out.count("chain_versions", chain.0.borrow().versions.len() as u64);
    if urgency.is_some() {
        let c = chain.0.borrow();
        out.count("snapshots_stored", c.snapshots.len() as u64);
        out.count("snapshots_served", c.events.iter().filter(|e| matches!(e, Ev::GetSnapshot { returned: Some(_), .. })).count() as u64);
        out.count("snapshot_requests", c.events.iter().filter(|e| matches!(e, Ev::GetSnapshot { .. })).count() as u64);
    }
    if conflict_syncs > 0 || multi_batch > 0 {
        out.nontrivial = Some(fnv(format!("{executed:?}").as_bytes()));
    }
    if index < 2 {
        out.sample = Some(json!({"replicas": n_replicas, "executed": executed.iter().map(|s| model::trunc(s)).collect::<Vec<_>>(),
            "chain_versions": chain.0.borrow().versions.len(), "conflict_syncs": conflict_syncs, "multi_batch_syncs": multi_batch}));
    }
}

fn big(tag: &str, n: usize) -> String {
    let mut s = format!("{tag}-");
    s.extend(std::iter::repeat('x').take(n));
    s
}

/// Minimal reproducers kept as a regression corpus (DESIGN Appendix A: F4a, F4c).
pub fn corpus() -> Vec<(&'static str, usize, Vec<Act>)> {
    let t = uuid::Uuid::from_u128(0x1111_0000_0000_4000_8000_0000_0000_0001);
    let s = |p: &str, v: String, at: i64| AbsOp::Set(t, p.into(), v, ts(at));
    vec![
        (
            "F4a-second-batch-not-rebased",
            2,
            vec![
                Act::Commit { r: 0, ops: vec![AbsOp::Create(t)] },
                Act::Sync { r: 0 },
                Act::Sync { r: 1 },
                Act::Commit { r: 1, ops: vec![s("p", "B".into(), 100)] },
                Act::Sync { r: 1 },
                Act::Commit { r: 0, ops: vec![s("q", big("q", 600_000), 1), s("r", big("r", 600_000), 1), s("p", "A".into(), 5)] },
                Act::Sync { r: 0 },
                Act::Sync { r: 1 },
                Act::Sync { r: 0 },
            ],
        ),
        (
            "F4c-first-batch-cancels",
            2,
            vec![
                Act::Commit { r: 0, ops: vec![AbsOp::Create(t)] },
                Act::Sync { r: 0 },
                Act::Sync { r: 1 },
                Act::Commit { r: 1, ops: vec![s("p", big("B", 1_000_000), 100)] },
                Act::Sync { r: 1 },
                Act::Commit { r: 0, ops: vec![s("p", big("A", 1_000_000), 5), s("q", "A-q".into(), 5)] },
                Act::Sync { r: 0 },
                Act::Sync { r: 1 },
                Act::Sync { r: 0 },
            ],
        ),
    ]
}

/// Exhaustive tiny core: all histories of exactly `len` actions over 2 replicas, 1 task,
/// 1 property, 2 timestamps.
fn tiny_alphabet() -> Vec<Act> {
    let t = uuid::Uuid::from_u128(0x2222_0000_0000_4000_8000_0000_0000_0002);
    let mut v = vec![];
    for r in 0..2usize {
        v.push(Act::Commit { r, ops: vec![AbsOp::Set(t, "p".into(), format!("v{r}a"), ts(1))] });
        v.push(Act::Commit { r, ops: vec![AbsOp::Set(t, "p".into(), format!("v{r}b"), ts(2))] });
        v.push(Act::Commit { r, ops: vec![AbsOp::Delete(t)] });
        v.push(Act::Commit { r, ops: vec![AbsOp::Create(t)] });
        v.push(Act::Sync { r });
    }
    v
}

pub fn run(ctx: &Ctx) -> Outcome {
    let _t0 = Instant::now();
    let mut acc = Acc::default();
    let seed = ctx.seed;
    let only = ctx.replay.as_ref().and_then(|r| r.get("stratum").and_then(|s| s.as_str()).map(|s| s.to_string()));
    let only_idx = ctx.replay.as_ref().and_then(|r| r.get("index").and_then(|s| s.as_u64()));
    let want = |s: &str| only.as_deref().map(|o| o == s).unwrap_or(true);
    let range = |n: u64| -> (u64, u64) { match only_idx { Some(i) => (i, i + 1), None => (0, n) } };

    if want("corpus") {
        let corp = corpus();
        let (lo, hi) = range(corp.len() as u64);
        run_cases(&mut acc, "corpus", hi - lo, |i| {
            let i = i + lo;
            let (_name, n, hist) = &corp[i as usize];
            let mut out = CaseOut::new();
            run_history("corpus", i, *n, &[StoreKind::Mem], hist, &mut out);
            out
        });
    }
    if want("small") {
        let (lo, hi) = range(ctx.tier.pick(12_000, 200_000));
        run_cases(&mut acc, "small", hi - lo, |i| {
            let i = i + lo;
            let mut rng = Rng::derive(seed, "c01-small", i);
            let replicas = 1 + rng.below(5);
            let cfg = GenCfg { replicas, tasks: 1 + rng.below(3), props: 1 + rng.below(3), actions: 5 + rng.below(36), max_batch: 1 + rng.below(4), big_per_mille: 0, sync_per_cent: 30 + rng.below(30) as u32 };
            let mut g = Gen::new(rng, cfg);
            let hist = g.history();
            let mut out = CaseOut::new();
            run_history("small", i, replicas, &[StoreKind::Mem], &hist, &mut out);
            out
        });
    }
    if want("sqlite") {
        let (lo, hi) = range(ctx.tier.pick(200, 3000));
        run_cases(&mut acc, "sqlite", hi - lo, |i| {
            let i = i + lo;
            let mut rng = Rng::derive(seed, "c01-sqlite", i);
            let replicas = 2 + rng.below(2);
            let cfg = GenCfg { replicas, tasks: 2, props: 2, actions: 8 + rng.below(16), max_batch: 3, big_per_mille: 0, sync_per_cent: 40 };
            let mut g = Gen::new(rng, cfg);
            let hist = g.history();
            let mut out = CaseOut::new();
            run_history("sqlite", i, replicas, &[StoreKind::Sqlite, StoreKind::Mem], &hist, &mut out);
            out
        });
    }
    if want("late-joiner") {
        // the server holds a snapshot; a replica that has never synchronized makes local changes
        // to the same tasks (often ones that cancel out: create + delete) and only then joins
        let (lo, hi) = range(ctx.tier.pick(500, 6000));
        run_cases(&mut acc, "late-joiner", hi - lo, |i| {
            let i = i + lo;
            let mut rng = Rng::derive(seed, "c01-late", i);
            let replicas = 3;
            let kinds = [StoreKind::Mem, if i % 2 == 0 { StoreKind::Sqlite } else { StoreKind::Mem }, StoreKind::Mem];
            let cfg = GenCfg { replicas, tasks: 1 + rng.below(2), props: 2, actions: 0, max_batch: 3, big_per_mille: 0, sync_per_cent: 0 };
            let mut g = Gen::new(rng, cfg);
            let mut hist = vec![];
            for _ in 0..(1 + g.rng.below(3)) {
                let r = if g.rng.chance(2, 3) { 0 } else { 2 };
                let ops = (0..1 + g.rng.below(3)).map(|_| g.abs_op(r)).collect();
                hist.push(Act::Commit { r, ops });
                hist.push(Act::Sync { r });
            }
            // the joiner's changes before its first sync
            let u = *g.rng.pick(&g.uuids.clone());
            let mut ops = vec![];
            match g.rng.below(4) {
                0 => ops.extend([AbsOp::Create(u), AbsOp::Delete(u)]),
                1 => ops.extend([AbsOp::Create(u), g.abs_op(1), AbsOp::Delete(u)]),
                2 => ops.extend([AbsOp::UndoPoint]),
                _ => ops.extend([g.abs_op(1), g.abs_op(1)]),
            }
            hist.push(Act::Commit { r: 1, ops });
            hist.push(Act::Sync { r: 1 });
            for _ in 0..g.rng.below(5) {
                let r = g.rng.below(3);
                if g.rng.chance(1, 2) {
                    let ops = (0..1 + g.rng.below(2)).map(|_| g.abs_op(r)).collect();
                    hist.push(Act::Commit { r, ops });
                } else {
                    hist.push(Act::Sync { r });
                }
            }
            let mut out = CaseOut::new();
            let urgency = if g.rng.chance(1, 2) { taskchampion::server::SnapshotUrgency::High } else { taskchampion::server::SnapshotUrgency::Low };
            run_history_urgency("late-joiner", i, replicas, &kinds, &hist, Some(urgency), &mut out);
            if out.nontrivial.is_none() && out.violations.is_empty() {
                out.nontrivial = Some(fnv(format!("late{i}").as_bytes()));
            }
            out
        });
    }
    if want("bigvalue") {
        let (lo, hi) = range(ctx.tier.pick(200, 3000));
        run_cases(&mut acc, "bigvalue", hi - lo, |i| {
            let i = i + lo;
            let mut rng = Rng::derive(seed, "c01-big", i);
            let replicas = 2 + rng.below(2);
            let cfg = GenCfg { replicas, tasks: 1 + rng.below(2), props: 2 + rng.below(2), actions: 6 + rng.below(10), max_batch: 2 + rng.below(4), big_per_mille: 450, sync_per_cent: 35 };
            let mut g = Gen::new(rng, cfg);
            let hist = g.history();
            let mut out = CaseOut::new();
            run_history("bigvalue", i, replicas, &[StoreKind::Mem], &hist, &mut out);
            out
        });
    }
    let mut exhaustive = None;
    if want("tiny-exhaustive") {
        let alpha = tiny_alphabet();
        let len = if ctx.tier == Tier::Quick { 4 } else { 5 };
        let total = (alpha.len() as u64).pow(len);
        let (lo, hi) = range(total);
        run_cases(&mut acc, "tiny-exhaustive", hi - lo, |i| {
            let i = i + lo;
            let mut k = i;
            let mut hist = vec![];
            for _ in 0..len {
                hist.push(alpha[(k % alpha.len() as u64) as usize].clone());
                k /= alpha.len() as u64;
            }
            let mut out = CaseOut::new();
            run_history("tiny-exhaustive", i, 2, &[StoreKind::Mem], &hist, &mut out);
            out
        });
        if only.is_none() && !acc.truncated {
            acc.exhaustive_parts.push(format!("all {total} histories of {len} actions over 2 replicas x 1 task x 1 property x 2 timestamps x {{set,set,delete,create,sync}}"));
            exhaustive = Some(false);
        }
    }
    if only.is_none() {
        acc.require("multi_batch_syncs", 1, "no sync sent its pending changes as several versions");
        acc.require("multi_batch_syncs_with_incoming", 1, "no multi-version sync had to rebase over incoming versions");
        acc.require("snapshots_stored", 50, "the late-joiner stratum stored too few snapshots");
        acc.require("conflict_syncs", 1, "no sync pulled a version touching a task with pending local changes");
    }
    Outcome {
        level: "exploration",
        rule: "seeded random action histories (1-5 replicas, 1-3 tasks, 1-3 properties, tied/decreasing/far timestamps, batches, big values >1MB strata, SQLite stratum, late-joiner stratum: server holds snapshots and a never-synced replica with pending changes joins) + regression corpus + exhaustive tiny core; a case is non-trivial iff some sync pulled a version touching a task with pending local changes or pushed >=2 versions; distinct by hash of the executed concrete operation sequence".into(),
        acc,
        exhaustive,
        assumptions: vec![
            "replicas only commit operations valid in their own state (storage.md); histories are generated that way".into(),
            "the harness chain server is correct by construction (single-threaded, parent==latest check)".into(),
            "stored state is observed through the public Storage trait at commit time (ObservedStorage)".into(),
        ],
        extra: Default::default(),
    }
}

//! C03 — no lost updates; documented conflict winners, independent of sync order (E1).
//!
//! Scenarios are a causal structure: a common synced prefix (task t with p="0", q="0"), concurrent
//! per-replica suffixes, then optionally a causally later change. Every scenario is run under every
//! permutation of the replicas' sync order. Three oracle tiers, all declarative (not the OT code):
//!   T1  rule-derived expectation for the simple concurrent forms (delete wins; else greatest
//!       timestamp wins per property; ties: one of the tied values; unrelated changes and duplicate
//!       creations are all kept);
//!   T2  the final state is the same for every sync order (all forms);
//!   T3  a change to a (task, property) nobody else touched, on a task nobody deleted, is present.
//! A change made after seeing the others' changes must override them whatever its timestamp.

use serde_json::json;
use std::collections::{BTreeMap, BTreeSet};
use uuid::Uuid;

use crate::exec::block_on;
use crate::model::{self, Tasks};
use crate::report::{run_cases, Acc, CaseOut, Ctx, Outcome};
use crate::rng::{fnv, Rng};
use crate::srv::ChainRef;
use crate::world::*;

#[derive(Clone, Copy, Debug, PartialEq, Eq, PartialOrd, Ord)]
pub enum Form {
    Nothing,
    SetP,
    SetQ,
    RmP,
    Delete,
    CreateT2,
    SetPSame,
    RmQ,
    DelCreate,
    DelCreateSetP,
    SetPDelete,
    SetPSetP,
    SetPRmP,
    SetPEmpty,
    /// the property is set to the value it already has (a re-assertion: still a change with a timestamp)
    SetPReassert,
    /// a second task nobody has seen yet is created and deleted again (no update in between)
    T2CreateDelete,
    /// ... created, given a property of this replica's own, and deleted
    T2CreateSetDelete,
}

pub const FORMS: &[Form] = &[
    Form::Nothing, Form::SetP, Form::SetQ, Form::RmP, Form::Delete, Form::CreateT2, Form::SetPSame, Form::RmQ, Form::DelCreate, Form::DelCreateSetP,
    Form::SetPDelete, Form::SetPSetP, Form::SetPRmP, Form::SetPEmpty, Form::T2CreateDelete, Form::T2CreateSetDelete, Form::SetPReassert,
];

impl Form {
    fn simple(self) -> bool {
        matches!(self, Form::Nothing | Form::SetP | Form::SetQ | Form::RmP | Form::Delete | Form::CreateT2 | Form::SetPSame | Form::RmQ | Form::SetPEmpty | Form::T2CreateDelete | Form::T2CreateSetDelete | Form::SetPReassert)
    }
    fn deletes_t2(self) -> bool {
        matches!(self, Form::T2CreateDelete | Form::T2CreateSetDelete)
    }
    fn deletes(self) -> bool {
        matches!(self, Form::Delete | Form::DelCreate | Form::DelCreateSetP | Form::SetPDelete)
    }
}

fn t1() -> Uuid {
    Uuid::from_u128(0xC03_0000_0000_4000_8000_0000_0000_0001)
}
fn t2() -> Uuid {
    Uuid::from_u128(0xC03_0000_0000_4000_8000_0000_0000_0002)
}

fn val(r: usize, n: u32) -> String {
    format!("{}{}", (b'A' + r as u8) as char, n)
}

/// Timestamps are given in milliseconds after T0, so that instants inside one second exist.
fn at_ms(ms: i64) -> chrono::DateTime<chrono::Utc> {
    ts_ns(ms.div_euclid(1000), (ms.rem_euclid(1000) * 1_000_000) as u32)
}

fn suffix(form: Form, r: usize, tstamp: i64) -> Vec<AbsOp> {
    let t = t1();
    let at = at_ms(tstamp);
    match form {
        Form::Nothing => vec![],
        Form::SetP => vec![AbsOp::Set(t, "p".into(), val(r, 1), at)],
        Form::SetQ => vec![AbsOp::Set(t, "q".into(), val(r, 1), at)],
        Form::RmP => vec![AbsOp::Remove(t, "p".into(), at)],
        Form::RmQ => vec![AbsOp::Remove(t, "q".into(), at)],
        Form::Delete => vec![AbsOp::Delete(t)],
        Form::CreateT2 => vec![AbsOp::Create(t2()), AbsOp::Set(t2(), format!("own{r}"), val(r, 9), at)],
        Form::SetPSame => vec![AbsOp::Set(t, "p".into(), "S".into(), at)],
        Form::SetPEmpty => vec![AbsOp::Set(t, "p".into(), String::new(), at)],
        Form::SetPReassert => vec![AbsOp::Set(t, "p".into(), "0".into(), at)],
        Form::T2CreateDelete => vec![AbsOp::Create(t2()), AbsOp::Delete(t2())],
        Form::T2CreateSetDelete => vec![AbsOp::Create(t2()), AbsOp::Set(t2(), format!("own{r}"), val(r, 9), at), AbsOp::Delete(t2())],
        Form::DelCreate => vec![AbsOp::Delete(t), AbsOp::Create(t)],
        Form::DelCreateSetP => vec![AbsOp::Delete(t), AbsOp::Create(t), AbsOp::Set(t, "p".into(), val(r, 1), at)],
        Form::SetPDelete => vec![AbsOp::Set(t, "p".into(), val(r, 1), at), AbsOp::Delete(t)],
        Form::SetPSetP => vec![AbsOp::Set(t, "p".into(), val(r, 1), at), AbsOp::Set(t, "p".into(), val(r, 2), at_ms(tstamp + 1))],
        Form::SetPRmP => vec![AbsOp::Set(t, "p".into(), val(r, 1), at), AbsOp::Remove(t, "p".into(), at_ms(tstamp + 1))],
    }
}

#[derive(Clone, Debug)]
pub struct Scenario {
    pub forms: Vec<Form>,
    pub stamps: Vec<i64>,
    pub later: bool,
    /// free-form stratum: explicit per-replica suffixes (used instead of `forms` when non-empty):
    /// (property, value or removal, timestamp in ms) — values come from a small alphabet shared by
    /// all replicas, so that one replica's change can coincide with an *earlier* change of another
    pub free: Vec<Vec<(String, Option<String>, i64)>>,
}

fn free_suffix(ops: &[(String, Option<String>, i64)]) -> Vec<AbsOp> {
    ops.iter()
        .map(|(p, v, t)| match v {
            Some(v) => AbsOp::Set(t1(), p.clone(), v.clone(), at_ms(*t)),
            None => AbsOp::Remove(t1(), p.clone(), at_ms(*t)),
        })
        .collect()
}

/// Run one scenario under one sync order; returns the final common state.
fn run_order(sc: &Scenario, order: &[usize]) -> Result<(Tasks, Tasks), String> {
    let n = if sc.free.is_empty() { sc.forms.len() } else { sc.free.len() };
    let chain = ChainRef::new();
    let mut reps: Vec<R> = (0..n).map(|i| new_replica(i, StoreKind::Mem, &chain)).collect();
    let base = concretise(&mut reps[0].rep, &[AbsOp::Create(t1()), AbsOp::Set(t1(), "p".into(), "0".into(), ts(0)), AbsOp::Set(t1(), "q".into(), "0".into(), ts(0))])?;
    block_on(reps[0].rep.commit_operations(base)).map_err(|e| e.to_string())?;
    quiesce(&mut reps, &chain, 6)?;
    for r in 0..n {
        let abs = if sc.free.is_empty() { suffix(sc.forms[r], r, sc.stamps[r]) } else { free_suffix(&sc.free[r]) };
        let ops = concretise(&mut reps[r].rep, &abs)?;
        block_on(reps[r].rep.commit_operations(ops)).map_err(|e| e.to_string())?;
    }
    let settle = |reps: &mut Vec<R>| -> Result<(), String> {
        for _round in 0..8 {
            let before = chain.0.borrow().versions.len();
            for r in order {
                sync(&mut reps[*r], &chain, false).map_err(|e| format!("sync error: {e:#}"))?;
            }
            let pending: usize = reps.iter().map(|r| r.ctl.last().unsynced.len()).sum();
            if chain.0.borrow().versions.len() == before && pending == 0 {
                return Ok(());
            }
        }
        Err("no quiescence".into())
    };
    settle(&mut reps)?;
    let state = check_converged(&mut reps, &chain)?;
    let mut after_later = state.clone();
    if sc.later {
        // the last replica in the order has seen everything; its next change must override
        let x = *order.last().unwrap();
        if state.contains_key(&t1()) {
            let ops = concretise(&mut reps[x].rep, &[AbsOp::Set(t1(), "p".into(), "LATER".into(), ts(-50))])?;
            block_on(reps[x].rep.commit_operations(ops)).map_err(|e| e.to_string())?;
            settle(&mut reps)?;
            after_later = check_converged(&mut reps, &chain)?;
        }
    }
    Ok((state, after_later))
}

fn permutations(n: usize) -> Vec<Vec<usize>> {
    fn go(cur: &mut Vec<usize>, used: &mut Vec<bool>, n: usize, out: &mut Vec<Vec<usize>>) {
        if cur.len() == n {
            out.push(cur.clone());
            return;
        }
        for i in 0..n {
            if !used[i] {
                used[i] = true;
                cur.push(i);
                go(cur, used, n, out);
                cur.pop();
                used[i] = false;
            }
        }
    }
    let mut out = vec![];
    go(&mut vec![], &mut vec![false; n], n, &mut out);
    out
}

/// T1: allowed final values per (task, property) from the rules alone (simple forms only).
fn t1_expect(sc: &Scenario) -> Option<BTreeMap<(Uuid, String), BTreeSet<Option<String>>>> {
    if !sc.forms.iter().all(|f| f.simple()) {
        return None;
    }
    let mut exp: BTreeMap<(Uuid, String), BTreeSet<Option<String>>> = BTreeMap::new();
    let deleted = sc.forms.iter().any(|f| *f == Form::Delete);
    if !deleted {
        for prop in ["p", "q"] {
            let mut cands: Vec<(i64, Option<String>)> = vec![];
            for (r, f) in sc.forms.iter().enumerate() {
                match (f, prop) {
                    (Form::SetP, "p") | (Form::SetQ, "q") => cands.push((sc.stamps[r], Some(val(r, 1)))),
                    (Form::SetPSame, "p") => cands.push((sc.stamps[r], Some("S".into()))),
                    (Form::SetPEmpty, "p") => cands.push((sc.stamps[r], Some(String::new()))),
                    (Form::SetPReassert, "p") => cands.push((sc.stamps[r], Some("0".to_string()))),
                    (Form::RmP, "p") | (Form::RmQ, "q") => cands.push((sc.stamps[r], None)),
                    _ => {}
                }
            }
            let allowed: BTreeSet<Option<String>> = if cands.is_empty() {
                [Some("0".to_string())].into_iter().collect()
            } else {
                let max = cands.iter().map(|c| c.0).max().unwrap();
                cands.iter().filter(|c| c.0 == max).map(|c| c.1.clone()).collect()
            };
            exp.insert((t1(), prop.to_string()), allowed);
        }
    }
    // concurrent creations of the second task are all kept — unless somebody deleted it
    // concurrently, which wins over the others' updates
    let t2_deleted = sc.forms.iter().any(|f| f.deletes_t2());
    for (r, f) in sc.forms.iter().enumerate() {
        if *f == Form::CreateT2 && !t2_deleted {
            exp.insert((t2(), format!("own{r}")), [Some(val(r, 9))].into_iter().collect());
        }
    }
    Some(exp)
}

fn classify(sc: &Scenario) -> &'static str {
    let mut stamps = sc.stamps.clone();
    stamps.sort();
    let tie = stamps.windows(2).any(|w| w[0] == w[1]);
    let same = sc.forms.iter().filter(|f| **f == Form::SetPSame).count() >= 2 || sc.forms.iter().filter(|f| **f == Form::RmP).count() >= 2 || sc.forms.iter().filter(|f| **f == Form::RmQ).count() >= 2 || sc.forms.iter().filter(|f| **f == Form::SetPReassert).count() >= 2;
    match (tie, same) {
        (_, true) => "same-value",
        (true, false) => "tie",
        _ => "other",
    }
}

pub fn judge(sc: &Scenario, tag: &str, index: u64, out: &mut CaseOut) {
    let replay = json!({"stratum": tag, "index": index, "forms": format!("{:?}", sc.forms), "stamps": sc.stamps, "later": sc.later, "free": format!("{:?}", sc.free)});
    let n = if sc.free.is_empty() { sc.forms.len() } else { sc.free.len() };
    if !sc.free.is_empty() {
        return judge_free(sc, replay, index, out);
    }
    let mut finals: Vec<(Vec<usize>, Tasks, Tasks)> = vec![];
    for order in permutations(n) {
        out.evaluations += 1;
        match run_order(sc, &order) {
            Ok((a, b)) => finals.push((order, a, b)),
            Err(e) => {
                let class = if e.contains("sync error") { "sync-error" } else if e.contains("no quiescence") { "no-quiescence" } else { "diverged" };
                out.violate(format!("run/{class}"), format!("order {order:?}: {e}"), replay.clone());
                return;
            }
        }
    }
    out.count("scenario_order_runs", finals.len() as u64);
    // T2: order independence
    let (o0, a0, b0) = &finals[0];
    for (o, a, b) in &finals[1..] {
        if a != a0 {
            out.violate(format!("order-dependent/{}", classify(sc)), format!("final state depends on the sync order: order {o0:?} -> {} ; order {o:?} -> {}", model::show_tasks(a0), model::show_tasks(a)), replay.clone());
            return;
        }
        if b != b0 {
            out.violate("order-dependent/after-later-change".to_string(), format!("order {o0:?} -> {} ; order {o:?} -> {}", model::show_tasks(b0), model::show_tasks(b)), replay.clone());
            return;
        }
    }
    out.count("order_independence_checks", 1);
    // T1: rule-derived expectation
    if let Some(exp) = t1_expect(sc) {
        let deleted = sc.forms.iter().any(|f| *f == Form::Delete);
        for (_, a, _) in &finals {
            if deleted && a.contains_key(&t1()) {
                out.violate("T1/delete-did-not-win".to_string(), format!("a concurrent deletion must win, but the task survived: {}", model::show_tasks(a)), replay.clone());
                return;
            }
            if sc.forms.iter().any(|f| f.deletes_t2()) && a.contains_key(&t2()) {
                out.violate("T1/delete-did-not-win/created-on-both-sides".to_string(), format!("a task created independently on several replicas and deleted by one of them survived: {}", model::show_tasks(a)), replay.clone());
                return;
            }
            if !deleted && !a.contains_key(&t1()) {
                out.violate("T1/task-lost".to_string(), "the task vanished although nobody deleted it".to_string(), replay.clone());
                return;
            }
            for ((task, prop), allowed) in &exp {
                let got = a.get(task).and_then(|m| m.get(prop)).cloned();
                if !allowed.contains(&got) {
                    let what = if *task == t2() { "duplicate-create-lost" } else if allowed.len() > 1 { "tie-survivor" } else { "winner" };
                    out.violate(format!("T1/{what}"), format!("{}.{prop} = {got:?}, the rules allow {allowed:?}; state {}", model::su(*task), model::show_tasks(a)), replay.clone());
                    return;
                }
            }
            // nothing else may appear
            if let Some(m) = a.get(&t1()) {
                if m.keys().any(|k| k != "p" && k != "q") {
                    out.violate("T1/extra-property".to_string(), model::show_tasks(a), replay.clone());
                    return;
                }
            }
        }
        out.count("rule_expectations_checked", 1);
    }
    // T3: no silent drop (only when nobody deletes)
    if !sc.forms.iter().any(|f| f.deletes()) {
        let touch = |f: Form| -> Vec<&'static str> {
            match f {
                Form::SetP | Form::RmP | Form::SetPSame | Form::SetPSetP | Form::SetPRmP | Form::SetPEmpty | Form::SetPReassert => vec!["p"],
                Form::SetQ | Form::RmQ => vec!["q"],
                _ => vec![],
            }
        };
        for (r, f) in sc.forms.iter().enumerate() {
            for prop in touch(*f) {
                let others = sc.forms.iter().enumerate().any(|(r2, f2)| r2 != r && touch(*f2).contains(&prop));
                if others {
                    continue;
                }
                let want: Option<String> = match f {
                    Form::SetP | Form::SetQ => Some(val(r, 1)),
                    Form::SetPSame => Some("S".into()),
                    Form::SetPEmpty => Some(String::new()),
                    Form::SetPReassert => Some("0".into()),
                    Form::SetPSetP => Some(val(r, 2)),
                    _ => None,
                };
                let got = a0.get(&t1()).and_then(|m| m.get(prop)).cloned();
                if got != want {
                    out.violate("T3/unconflicted-change-dropped".to_string(), format!("replica {r}'s change to {prop} ({want:?}) was touched by nobody else but the final value is {got:?}"), replay.clone());
                    return;
                }
                out.count("unconflicted_changes_checked", 1);
            }
        }
    }
    // causally later change overrides regardless of its (earlier) timestamp
    if sc.later {
        for (o, a, b) in &finals {
            if a.contains_key(&t1()) {
                let got = b.get(&t1()).and_then(|m| m.get("p")).cloned();
                if got.as_deref() != Some("LATER") {
                    out.violate("later-change-lost".to_string(), format!("order {o:?}: a change made after seeing all others (older timestamp) did not override: p = {got:?}"), replay.clone());
                    return;
                }
                out.count("later_changes_checked", 1);
            }
        }
    }
    let conflicts = sc.forms.iter().filter(|f| **f != Form::Nothing).count() >= 2;
    if conflicts {
        out.nontrivial = Some(fnv(format!("{:?}{:?}{}", sc.forms, sc.stamps, sc.later).as_bytes()));
    }
    if index % 499 == 1 {
        out.sample = Some(json!({"forms": format!("{:?}", sc.forms), "stamps": sc.stamps, "later": sc.later, "orders_run": finals.len(), "final": model::show_tasks(a0)}));
    }
}

/// Free-form suffixes (several updates per replica, values shared between replicas): the rules give no
/// crisp winner for every such history, so the oracle demands (T2) the same final state under every
/// sync order, (T1') for a property on which every replica made at most one change the greatest
/// timestamp wins (ties: one of the tied values), (T3') a property only one replica touched ends with
/// that replica's last value, and nothing that nobody wrote appears.
fn judge_free(sc: &Scenario, replay: serde_json::Value, index: u64, out: &mut CaseOut) {
    let n = sc.free.len();
    let mut finals: Vec<(Vec<usize>, Tasks)> = vec![];
    for order in permutations(n) {
        out.evaluations += 1;
        match run_order(sc, &order) {
            Ok((a, _)) => finals.push((order, a)),
            Err(e) => {
                let class = if e.contains("sync error") { "sync-error" } else if e.contains("no quiescence") { "no-quiescence" } else { "diverged" };
                out.violate(format!("run/{class}"), format!("order {order:?}: {e}"), replay.clone());
                return;
            }
        }
    }
    out.count("scenario_order_runs", finals.len() as u64);
    let (o0, a0) = &finals[0];
    for (o, a) in &finals[1..] {
        if a != a0 {
            out.violate("order-dependent/free-form".to_string(), format!("final state depends on the sync order: order {o0:?} -> {} ; order {o:?} -> {}", model::show_tasks(a0), model::show_tasks(a)), replay.clone());
            return;
        }
    }
    out.count("order_independence_checks", 1);
    out.count("free_form_scenarios", 1);
    for prop in ["p", "q"] {
        let per: Vec<Vec<&(String, Option<String>, i64)>> = sc.free.iter().map(|ops| ops.iter().filter(|o| o.0 == prop).collect()).collect();
        let got = a0.get(&t1()).and_then(|m| m.get(prop)).cloned();
        let touched: Vec<usize> = (0..n).filter(|r| !per[*r].is_empty()).collect();
        let mut written: BTreeSet<Option<String>> = per.iter().flatten().map(|o| o.1.clone()).collect();
        if touched.is_empty() {
            written.insert(Some("0".into()));
        }
        if !a0.contains_key(&t1()) {
            out.violate("T1/task-lost".to_string(), "the task vanished although nobody deleted it".to_string(), replay.clone());
            return;
        }
        if !written.contains(&got) {
            out.violate("free-form/invented-value".to_string(), format!("{prop} = {got:?}, which no concurrent change wrote ({written:?})"), replay.clone());
            return;
        }
        if touched.len() == 1 {
            let want = per[touched[0]].last().unwrap().1.clone();
            if got != want {
                out.violate("T3/unconflicted-change-dropped".to_string(), format!("only replica {} changed {prop} (last value {want:?}) but the final value is {got:?}", touched[0]), replay.clone());
                return;
            }
            out.count("unconflicted_changes_checked", 1);
        } else if per.iter().all(|v| v.len() <= 1) && touched.len() >= 2 {
            let max = per.iter().flatten().map(|o| o.2).max().unwrap();
            let allowed: BTreeSet<Option<String>> = per.iter().flatten().filter(|o| o.2 == max).map(|o| o.1.clone()).collect();
            if !allowed.contains(&got) {
                out.violate("T1/winner".to_string(), format!("{prop} = {got:?}, the rules allow {allowed:?}"), replay.clone());
                return;
            }
            out.count("rule_expectations_checked", 1);
        }
    }
    if sc.free.iter().filter(|f| !f.is_empty()).count() >= 2 {
        out.nontrivial = Some(fnv(format!("{:?}", sc.free).as_bytes()));
    }
    if index % 499 == 1 {
        out.sample = Some(json!({"free": format!("{:?}", sc.free), "orders_run": finals.len(), "final": model::show_tasks(a0)}));
    }
}

/// Regression corpus: F5 (tie) and F12 (equal values merged, later timestamp forgotten).
fn corpus() -> Vec<Scenario> {
    vec![
        Scenario { forms: vec![Form::SetP, Form::SetP], stamps: vec![50_000, 50_000], later: false, free: vec![] },
        Scenario { forms: vec![Form::SetP, Form::RmP, Form::RmP], stamps: vec![200_000, 100_000, 300_000], later: false, free: vec![] },
        Scenario { forms: vec![Form::SetP, Form::SetPSame, Form::SetPSame], stamps: vec![200_000, 100_000, 300_000], later: false, free: vec![] },
        // F17: A sets p=x@10 then p=y@20, B concurrently sets p=x@30 (identical to A's *first* change)
        Scenario {
            forms: vec![],
            stamps: vec![],
            later: false,
            free: vec![vec![("p".into(), Some("X".into()), 10_000), ("p".into(), Some("Y".into()), 20_000)], vec![("p".into(), Some("X".into()), 30_000)]],
        },
    ]
}

pub fn run(ctx: &Ctx) -> Outcome {
    let mut acc = Acc::default();
    let seed = ctx.seed;
    let only = ctx.replay.as_ref().and_then(|r| r.get("stratum").and_then(|s| s.as_str()).map(|s| s.to_string()));
    let only_idx = ctx.replay.as_ref().and_then(|r| r.get("index").and_then(|s| s.as_u64()));
    let want = |s: &str| only.as_deref().map(|o| o == s).unwrap_or(true);
    let range = |n: u64| -> (u64, u64) { match only_idx { Some(i) => (i, i + 1), None => (0, n) } };
    if want("corpus") {
        let c = corpus();
        let (lo, hi) = range(c.len() as u64);
        run_cases(&mut acc, "corpus", hi - lo, |i| {
            let mut out = CaseOut::new();
            out.evaluations = 0;
            judge(&c[(i + lo) as usize], "corpus", i + lo, &mut out);
            out
        });
    }
    if want("pairs-exhaustive") {
        // forms^2 x timestamp relation {<, =, >, earlier / later within the same second} x later{no,yes}
        let f = FORMS.len() as u64;
        let total = f * f * 5 * 2;
        let (lo, hi) = range(total);
        run_cases(&mut acc, "pairs-exhaustive", hi - lo, |i| {
            let i = i + lo;
            let mut k = i;
            let fa = FORMS[(k % f) as usize];
            k /= f;
            let fb = FORMS[(k % f) as usize];
            k /= f;
            let rel = k % 5;
            k /= 5;
            let later = k % 2 == 1;
            let sc = Scenario { forms: vec![fa, fb], stamps: vec![200_500, [100_000, 200_500, 300_000, 200_200, 200_700][rel as usize]], later, free: vec![] };
            let mut out = CaseOut::new();
            out.evaluations = 0;
            judge(&sc, "pairs-exhaustive", i, &mut out);
            out
        });
        if only.is_none() && !acc.truncated {
            acc.exhaustive_parts.push(format!("pairs: all {} form pairs x timestamp relation {{<, =, >, same second earlier, same second later}} x {{no later change, later change}} x both sync orders", f * f));
        }
    }
    if want("triples-same-value") {
        // mandatory stratum: two replicas make the identical change around a third one's
        let mut scs = vec![];
        for same in [Form::RmP, Form::SetPSame, Form::RmQ] {
            for other in [Form::SetP, Form::RmP, Form::SetPSame, Form::SetQ] {
                for stamps in [[200_000, 100_000, 300_000], [200_000, 300_000, 100_000], [100_000, 200_000, 300_000], [300_000, 100_000, 200_000], [200_000, 200_000, 300_000], [200_000, 100_000, 100_000], [200_500, 200_200, 200_700], [200_500, 200_700, 200_200]] {
                    scs.push(Scenario { forms: vec![other, same, same], stamps: stamps.to_vec(), later: false, free: vec![] });
                }
            }
        }
        let (lo, hi) = range(scs.len() as u64);
        run_cases(&mut acc, "triples-same-value", hi - lo, |i| {
            let mut out = CaseOut::new();
            out.evaluations = 0;
            judge(&scs[(i + lo) as usize], "triples-same-value", i + lo, &mut out);
            out
        });
    }
    if want("triples-random") {
        let (lo, hi) = range(ctx.tier.pick(5000, 60_000));
        run_cases(&mut acc, "triples-random", hi - lo, |i| {
            let i = i + lo;
            let mut rng = Rng::derive(seed, "c03-triples", i);
            let sc = Scenario {
                forms: (0..3).map(|_| *rng.pick(FORMS)).collect(),
                stamps: (0..3).map(|_| *rng.pick(&[100_000i64, 200_000, 200_200, 200_700, 300_000, 400_000])).collect(),
                later: rng.chance(1, 3),
                free: vec![],
            };
            let mut out = CaseOut::new();
            out.evaluations = 0;
            judge(&sc, "triples-random", i, &mut out);
            out
        });
    }
    if want("free-form") {
        // 2-3 replicas, 1-3 updates each on p/q with values from a shared alphabet and timestamps from
        // a small set (ties, inversions inside one replica's own sequence)
        let (lo, hi) = range(ctx.tier.pick(6000, 150_000));
        run_cases(&mut acc, "free-form", hi - lo, |i| {
            let i = i + lo;
            let mut rng = Rng::derive(seed, "c03-free", i);
            let n = 2 + rng.below(2) as usize;
            let free = (0..n)
                .map(|_| {
                    (0..1 + rng.below(3))
                        .map(|_| {
                            let prop = if rng.chance(3, 4) { "p" } else { "q" }.to_string();
                            let v = match rng.below(5) {
                                0 => None,
                                1 => Some(String::new()),
                                2 => Some("X".to_string()),
                                3 => Some("Y".to_string()),
                                _ => Some("0".to_string()),
                            };
                            (prop, v, *rng.pick(&[10_000i64, 20_000, 20_300, 30_000, 40_000]))
                        })
                        .collect()
                })
                .collect();
            let sc = Scenario { forms: vec![], stamps: vec![], later: false, free };
            let mut out = CaseOut::new();
            out.evaluations = 0;
            judge(&sc, "free-form", i, &mut out);
            out
        });
    }
    if only.is_none() {
        acc.require("free_form_scenarios", 1000, "too few free-form scenarios");
        acc.require("rule_expectations_checked", 100, "too few rule-derived expectations");
        acc.require("order_independence_checks", 300, "too few order-independence checks");
        acc.require("later_changes_checked", 50, "too few causally-later changes");
    }
    Outcome {
        level: "exploration",
        rule: "scenario = common synced prefix + one concurrent suffix form per replica (14 forms: nothing, set p/q, remove p/q, delete, duplicate create of a second task, identical set, set to the empty string, delete+create(+set), set+delete, set+set, set+remove; timestamps in milliseconds incl. pairs inside one second) + timestamps + optional causally-later change; every scenario runs under every permutation of the sync order; pairs enumerated exhaustively, triples: mandatory same-value stratum + seeded random; evaluations = scenario x order runs; non-trivial = >=2 replicas changed something; distinct by (forms, timestamps, later)".into(),
        exhaustive: None,
        acc,
        assumptions: vec![
            "T1 expectations only for simple forms; for equal timestamps with different values only 'one of the tied values, the same in every order' is demanded".into(),
            "sync order = one fixed permutation repeated until quiescence".into(),
        ],
        extra: Default::default(),
    }
}

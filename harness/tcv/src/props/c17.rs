//! C17 — concurrent handles on one SQLite replica serialise without loss (engine E5).
//!
//! 2–8 workers (OS threads in-process, and child processes), each with its own `SqliteStorage`
//! handle on one directory, commit batches with unique ids (a fresh private task plus a
//! fresh-property update of one of three *shared* tasks), undo the log tail, rebuild the working
//! set in both modes and read. Every worker logs each commit / undo with its result. After all
//! workers have joined, a fresh handle audits the database against those logs.

use serde_json::json;
use std::collections::{BTreeMap, BTreeSet, HashSet};
use std::io::Write;
use std::process::{Command, Stdio};
use taskchampion::storage::AccessMode;
use taskchampion::{Operation, Operations, Replica, SqliteStorage};
use uuid::Uuid;

use crate::exec::block_on;
use crate::model::{self, Tasks};
use crate::props::c04::dump_storage;
use crate::report::{run_cases_threads, Acc, CaseOut, Ctx, Outcome};
use crate::rng::{fnv, Rng};
use crate::world::{ts, TempDir};

#[derive(Clone, Debug)]
pub struct LogEntry {
    pub worker: usize,
    pub seq: u64,
    /// "commit" | "undo" | "read"
    pub kind: String,
    pub ok: bool,
    /// undo: the call returned true
    pub flag: bool,
    pub ops: Vec<Operation>,
    pub state_hash: u64,
    pub err: String,
}

fn shared(n: u128) -> Uuid {
    Uuid::from_u128(0xC17_5000_0000_4000_8000_0000_0000_0000u128 + n)
}

fn state_hash(t: &Tasks) -> u64 {
    fnv(format!("{t:?}").as_bytes())
}

fn batch(worker: usize, seq: u64, rng: &mut Rng, with_undo: bool) -> Operations {
    let own = Uuid::from_u128(0xC17_0000_0000_4000_8000_0000_0000_0000u128 + ((worker as u128) << 40) + seq as u128);
    let sh = shared(rng.below(3) as u128);
    let v = vec![
        Operation::UndoPoint,
        Operation::Create { uuid: own },
        Operation::Update { uuid: own, property: "id".into(), old_value: None, value: Some(format!("w{worker}-{seq}")), timestamp: ts(seq as i64) },
        Operation::Update { uuid: own, property: "status".into(), old_value: None, value: Some(if rng.chance(2, 3) { "pending" } else { "completed" }.into()), timestamp: ts(seq as i64) },
        // contended read-modify-write of a shared task row; a fresh property per commit keeps the
        // recorded old value (None) valid whatever the other handles do
        Operation::Update { uuid: sh, property: format!("w{worker}-{seq}"), old_value: None, value: Some(format!("v{worker}-{seq}")), timestamp: ts(seq as i64) },
    ];
    let mut v = v;
    // In rounds without undo, several handles also flip the status of the *same* shared task
    // between completed and pending (the recorded old value is what the handle believes, as in real
    // use where reading and committing are separate transactions): each flip to pending is a
    // candidate working-set insertion racing with the other handles' insertions of that task.
    if !with_undo && rng.chance(1, 2) {
        let to_pending = rng.chance(1, 2);
        let (old, new) = if to_pending { ("completed", "pending") } else { ("pending", "completed") };
        v.push(Operation::Update { uuid: sh, property: "status".into(), old_value: Some(old.into()), value: Some(new.into()), timestamp: ts(seq as i64) });
    }
    v
}

/// One worker's life. `with_undo` is fixed per round.
pub fn worker_run(dir: &std::path::Path, worker: usize, seed: u64, round: u64, actions: u64, with_undo: bool) -> Result<Vec<LogEntry>, String> {
    let st = block_on(SqliteStorage::new(dir, AccessMode::ReadWrite, false)).map_err(|e| format!("open: {e}"))?;
    let mut rep = Replica::new(st);
    let mut rng = Rng::derive(seed, "c17-worker", round * 64 + worker as u64);
    let mut log = vec![];
    // start gate: all workers begin together once the parent drops the "go" file
    let go = dir.parent().map(|p| p.join("go"));
    if let Some(go) = go {
        let t0 = std::time::Instant::now();
        while !go.exists() && t0.elapsed().as_secs() < 20 {
            std::thread::sleep(std::time::Duration::from_micros(200));
        }
    }
    for seq in 0..actions {
        // harness-level jitter between actions (never inside the library's lock)
        if rng.chance(2, 3) {
            std::thread::sleep(std::time::Duration::from_micros(rng.below(300) as u64));
        }
        let choice = rng.below(100);
        if choice < 60 {
            let ops = batch(worker, seq, &mut rng, with_undo);
            let res = block_on(rep.commit_operations(ops.clone()));
            log.push(LogEntry { worker, seq, kind: "commit".into(), ok: res.is_ok(), flag: false, ops, state_hash: 0, err: res.err().map(|e| format!("{e:#}")).unwrap_or_default() });
        } else if choice < 72 && with_undo {
            match block_on(rep.get_undo_operations()) {
                Ok(ops) => {
                    let res = block_on(rep.commit_reversed_operations(ops.clone()));
                    log.push(LogEntry { worker, seq, kind: "undo".into(), ok: res.is_ok(), flag: *res.as_ref().unwrap_or(&false), ops, state_hash: 0, err: res.err().map(|e| format!("{e:#}")).unwrap_or_default() });
                }
                Err(e) => log.push(LogEntry { worker, seq, kind: "undo".into(), ok: false, flag: false, ops: vec![], state_hash: 0, err: format!("{e:#}") }),
            }
        } else if choice < 82 {
            let _ = block_on(rep.rebuild_working_set(rng.chance(1, 2)));
        } else {
            if let Ok(t) = block_on(model::replica_tasks(&mut rep)) {
                log.push(LogEntry { worker, seq, kind: "read".into(), ok: true, flag: false, ops: vec![], state_hash: state_hash(&t), err: String::new() });
            }
            let _ = block_on(rep.working_set());
            let _ = block_on(rep.pending_task_data());
        }
    }
    Ok(log)
}

/// Child-process entry: `tcv worker c17 <dir> <logfile> <worker> <seed> <round> <actions> <undo>`
pub fn worker(args: &[String]) -> i32 {
    let dir = std::path::PathBuf::from(&args[0]);
    let logfile = &args[1];
    let worker: usize = args[2].parse().unwrap();
    let seed: u64 = args[3].parse().unwrap();
    let round: u64 = args[4].parse().unwrap();
    let actions: u64 = args[5].parse().unwrap();
    let undo = args[6] == "1";
    match worker_run(&dir, worker, seed, round, actions, undo) {
        Ok(log) => {
            let mut f = std::fs::File::create(logfile).expect("log file");
            for e in log {
                let line = json!({"worker": e.worker, "seq": e.seq, "kind": e.kind, "ok": e.ok, "flag": e.flag, "ops": serde_json::to_value(&e.ops).unwrap(), "state_hash": e.state_hash, "err": e.err});
                writeln!(f, "{line}").unwrap();
            }
            0
        }
        Err(e) => {
            eprintln!("{e}");
            3
        }
    }
}

fn read_log(path: &std::path::Path) -> Result<Vec<LogEntry>, String> {
    let s = std::fs::read_to_string(path).map_err(|e| format!("read {path:?}: {e}"))?;
    let mut out = vec![];
    for line in s.lines() {
        let v: serde_json::Value = serde_json::from_str(line).map_err(|e| e.to_string())?;
        out.push(LogEntry {
            worker: v["worker"].as_u64().unwrap() as usize,
            seq: v["seq"].as_u64().unwrap(),
            kind: v["kind"].as_str().unwrap().to_string(),
            ok: v["ok"].as_bool().unwrap(),
            flag: v["flag"].as_bool().unwrap(),
            ops: serde_json::from_value(v["ops"].clone()).map_err(|e| e.to_string())?,
            state_hash: v["state_hash"].as_u64().unwrap(),
            err: v["err"].as_str().unwrap_or("").to_string(),
        });
    }
    Ok(out)
}

fn find_sub(hay: &[Operation], needle: &[Operation]) -> Vec<usize> {
    if needle.is_empty() || hay.len() < needle.len() {
        return vec![];
    }
    (0..=hay.len() - needle.len()).filter(|i| &hay[*i..*i + needle.len()] == needle).collect()
}

fn round_case(i: u64, seed: u64, out: &mut CaseOut) {
    let mut rng = Rng::derive(seed, "c17-round", i);
    let replay = json!({"stratum": "rounds", "index": i});
    let base = TempDir::new("c17");
    let dir = base.path().join("replica");
    std::fs::create_dir_all(&dir).unwrap();
    let workers = 2 + rng.below(7);
    let actions = 40u64;
    let with_undo = rng.chance(1, 2);
    let processes = rng.chance(1, 3) && std::env::var("TCV_THREADS_ONLY").is_err();
    // initialise once (concurrent creation of a database is outside the statement), and create the shared tasks
    let init_ops: Operations = {
        let st = block_on(SqliteStorage::new(&dir, AccessMode::ReadWrite, true)).expect("init");
        let mut rep = Replica::new(st);
        let mut ops = Operations::new();
        for n in 0..3 {
            ops.push(Operation::Create { uuid: shared(n) });
            ops.push(Operation::Update { uuid: shared(n), property: "status".into(), old_value: None, value: Some("pending".into()), timestamp: ts(0) });
        }
        block_on(rep.commit_operations(ops.clone())).expect("init commit");
        ops
    };
    // run the workers
    let mut logs: Vec<LogEntry> = vec![];
    if processes {
        let mut children = vec![];
        for w in 0..workers {
            let lf = base.path().join(format!("log-{w}.jsonl"));
            let c = Command::new(std::env::current_exe().unwrap())
                .args(["worker", "c17", dir.to_str().unwrap(), lf.to_str().unwrap(), &w.to_string(), &seed.to_string(), &i.to_string(), &actions.to_string(), if with_undo { "1" } else { "0" }])
                .stdout(Stdio::null())
                .stderr(Stdio::null())
                .spawn();
            match c {
                Ok(c) => children.push((c, lf)),
                Err(e) => {
                    out.inconclusive = Some(format!("spawn: {e}"));
                    return;
                }
            }
        }
        std::fs::write(base.path().join("go"), b"go").unwrap();
        for (mut c, lf) in children {
            let st = c.wait();
            if !st.map(|s| s.success()).unwrap_or(false) {
                out.inconclusive = Some("a worker process failed".into());
                return;
            }
            match read_log(&lf) {
                Ok(l) => logs.extend(l),
                Err(e) => {
                    out.inconclusive = Some(e);
                    return;
                }
            }
        }
        out.count("rounds_with_processes", 1);
    } else {
        let res: Vec<Result<Vec<LogEntry>, String>> = std::thread::scope(|s| {
            let hs: Vec<_> = (0..workers).map(|w| { let d = dir.clone(); s.spawn(move || worker_run(&d, w, seed, i, actions, with_undo)) }).collect();
            std::thread::sleep(std::time::Duration::from_millis(5));
            std::fs::write(base.path().join("go"), b"go").unwrap();
            hs.into_iter().map(|h| h.join().unwrap_or_else(|_| Err("worker panicked".into()))).collect()
        });
        for r in res {
            match r {
                Ok(l) => logs.extend(l),
                Err(e) => {
                    out.inconclusive = Some(e);
                    return;
                }
            }
        }
        out.count("rounds_with_threads", 1);
    }
    // ---- audit through a fresh handle ----
    let mut st = block_on(SqliteStorage::new(&dir, AccessMode::ReadWrite, false)).expect("audit open");
    let d = match dump_storage(&mut st) {
        Ok(d) => d,
        Err(e) => {
            out.violate("audit/unreadable".to_string(), e, replay);
            return;
        }
    };
    let stored = &d.unsynced;
    let commits_ok = logs.iter().filter(|e| e.kind == "commit" && e.ok).count() as u64;
    let commits_err = logs.iter().filter(|e| e.kind == "commit" && !e.ok).count() as u64;
    out.count("commits_ok", commits_ok);
    out.count("commits_failed", commits_err);
    out.count("busy_errors", logs.iter().filter(|e| e.err.to_lowercase().contains("busy") || e.err.to_lowercase().contains("locked")).count() as u64);
    let undone: Vec<&LogEntry> = logs.iter().filter(|e| e.kind == "undo" && e.ok && e.flag).collect();
    out.count("undos_applied", undone.len() as u64);
    out.count("undos_refused", logs.iter().filter(|e| e.kind == "undo" && e.ok && !e.flag).count() as u64);
    // (1) every successful commit entirely present (contiguous, in order, once) or removed as a whole by a successful undo
    let mut undone_batches: Vec<&[Operation]> = undone.iter().map(|u| u.ops.as_slice()).collect();
    for e in logs.iter().filter(|e| e.kind == "commit") {
        let hits = find_sub(stored, &e.ops);
        let any_present = e.ops.iter().filter(|o| !o.is_undo_point()).any(|o| stored.contains(o));
        if e.ok {
            if hits.len() == 1 {
                continue;
            }
            if hits.len() > 1 {
                out.violate("audit/commit-duplicated".to_string(), format!("operations of commit w{}-{} appear {} times in the stored log", e.worker, e.seq, hits.len()), replay.clone());
                return;
            }
            // not contiguous-present: must have been undone as a whole, and then be entirely absent
            if let Some(pos) = undone_batches.iter().position(|b| *b == e.ops.as_slice()) {
                undone_batches.remove(pos);
                if any_present {
                    out.violate("audit/undone-commit-partially-present".to_string(), format!("commit w{}-{} was undone but some of its operations are still stored", e.worker, e.seq), replay.clone());
                    return;
                }
                continue;
            }
            let class = if any_present { "partially-present-or-reordered" } else { "lost" };
            out.violate(format!("audit/successful-commit-{class}"), format!("commit w{}-{} reported success but its operations are not contiguously present in the stored log (and no successful undo removed it)", e.worker, e.seq), replay.clone());
            return;
        } else if any_present {
            out.violate("audit/failed-commit-present".to_string(), format!("commit w{}-{} reported an error ({}) but some of its operations are stored", e.worker, e.seq, e.err), replay.clone());
            return;
        }
    }
    // the stored log holds nothing but the init batch and successful commits
    // (the initial batch has no undo point, so an early undo may legitimately remove it as a whole)
    let init_undone = undone.iter().any(|u| u.ops == init_ops);
    let mut expected_len = if init_undone && find_sub(stored, &init_ops).is_empty() { 0 } else { init_ops.len() };
    for e in logs.iter().filter(|e| e.kind == "commit" && e.ok) {
        if find_sub(stored, &e.ops).len() == 1 {
            expected_len += e.ops.len();
        }
    }
    if stored.len() != expected_len {
        out.violate("audit/foreign-operations".to_string(), format!("stored log has {} operations, the init batch plus the surviving successful commits have {}", stored.len(), expected_len), replay.clone());
        return;
    }
    // (2) replaying the recorded operations in stored order reproduces the stored tasks
    let mut t = Tasks::new();
    let mut prefix_hashes: HashSet<u64> = HashSet::new();
    prefix_hashes.insert(state_hash(&t));
    for op in stored {
        if op.is_undo_point() {
            prefix_hashes.insert(state_hash(&t));
        }
        if let Some(m) = model::from_operation(op) {
            model::apply(&mut t, &m);
        }
    }
    prefix_hashes.insert(state_hash(&t));
    if t != d.tasks {
        out.violate("audit/replay-differs-from-tasks".to_string(), format!("replaying the stored operations gives a different task set: {}", model::diff_tasks(&t, &d.tasks)), replay.clone());
        return;
    }
    // (3) working set: no duplicates now; after a final non-renumbering rebuild exactly the pending set
    let mut seen = BTreeSet::new();
    for u in d.ws.iter().flatten() {
        if !seen.insert(*u) {
            out.violate("audit/working-set-duplicate".to_string(), format!("task {} occupies two working-set positions", model::su(*u)), replay.clone());
            return;
        }
    }
    let pending: BTreeSet<Uuid> = d.tasks.iter().filter(|(_, m)| matches!(m.get("status").map(|s| s.as_str()), Some("pending") | Some("recurring"))).map(|(u, _)| *u).collect();
    {
        let mut rep = Replica::new(st);
        if block_on(rep.rebuild_working_set(false)).is_err() {
            out.violate("audit/rebuild-failed".to_string(), "final rebuild failed".to_string(), replay.clone());
            return;
        }
        let ws = block_on(rep.working_set()).expect("ws");
        let listed: Vec<Uuid> = ws.iter().map(|(_, u)| u).collect();
        let set: BTreeSet<Uuid> = listed.iter().copied().collect();
        if listed.len() != set.len() || set != pending {
            out.violate("audit/working-set-lost-or-duplicated".to_string(), format!("after the final rebuild the working set has {} entries ({} distinct) for {} pending tasks", listed.len(), set.len(), pending.len()), replay.clone());
            return;
        }
    }
    // (4) readers saw a state that some prefix of whole commits produces (rounds without undo)
    if !with_undo {
        for e in logs.iter().filter(|e| e.kind == "read") {
            out.count("reader_observations", 1);
            if !prefix_hashes.contains(&e.state_hash) {
                out.violate("audit/reader-saw-impossible-state".to_string(), format!("worker {} (action {}) read a task set that no prefix of the stored log (at commit boundaries) produces", e.worker, e.seq), replay.clone());
                return;
            }
        }
    }
    out.count("rounds_audited", 1);
    out.count("workers", workers as u64);
    // distinct interleavings: hash of the stored log's worker sequence
    let order: Vec<String> = stored.iter().filter_map(|o| match o { Operation::Update { property, value: Some(v), .. } if property == "id" => Some(v.clone()), _ => None }).collect();
    let switches = order.windows(2).filter(|w| w[0].split('-').next() != w[1].split('-').next()).count();
    out.count("worker_switches_in_stored_log", switches as u64);
    if switches > 0 {
        out.nontrivial = Some(fnv(format!("{order:?}").as_bytes()));
    }
    if i < 3 {
        out.sample = Some(json!({"workers": workers, "processes": processes, "with_undo": with_undo, "commits_ok": commits_ok, "commits_failed": commits_err, "undos_applied": undone.len(), "stored_operations": stored.len(), "worker_switches_in_stored_log": switches, "log_order_head": order.iter().take(20).collect::<Vec<_>>()}));
    }
}

/// Working-set insertion race: many tasks that are *not* in the working set (status completed) are
/// turned pending by all workers at the same moment (barrier-synchronised), every worker through
/// its own handle. However the commits interleave, each task must end up in the working set once.
fn ws_race_case(i: u64, seed: u64, out: &mut CaseOut) {
    let mut rng = Rng::derive(seed, "c17-wsrace", i);
    let replay = json!({"stratum": "ws-race", "index": i});
    let base = TempDir::new("c17ws");
    let dir = base.path().join("replica");
    std::fs::create_dir_all(&dir).unwrap();
    let workers = 3 + rng.below(5);
    let steps = 40usize;
    let task = |k: usize| Uuid::from_u128(0xC17_7000_0000_4000_8000_0000_0000_0000u128 + k as u128);
    {
        let st = block_on(SqliteStorage::new(&dir, AccessMode::ReadWrite, true)).expect("init");
        let mut rep = Replica::new(st);
        let mut ops = Operations::new();
        for k in 0..steps {
            ops.push(Operation::Create { uuid: task(k) });
            ops.push(Operation::Update { uuid: task(k), property: "status".into(), old_value: None, value: Some("completed".into()), timestamp: ts(0) });
        }
        block_on(rep.commit_operations(ops)).expect("init commit");
    }
    let barrier = std::sync::Barrier::new(workers);
    let results: Vec<(u64, u64)> = std::thread::scope(|s| {
        let hs: Vec<_> = (0..workers)
            .map(|w| {
                let d = dir.clone();
                let barrier = &barrier;
                s.spawn(move || {
                    let st = block_on(SqliteStorage::new(&d, AccessMode::ReadWrite, false)).expect("open");
                    let mut rep = Replica::new(st);
                    let (mut ok, mut failed) = (0u64, 0u64);
                    for k in 0..steps {
                        barrier.wait();
                        let ops = vec![Operation::Update { uuid: task(k), property: "status".into(), old_value: Some("completed".into()), value: Some("pending".into()), timestamp: ts(1 + w as i64) }];
                        match block_on(rep.commit_operations(ops)) {
                            Ok(()) => ok += 1,
                            Err(_) => failed += 1,
                        }
                    }
                    (ok, failed)
                })
            })
            .collect();
        hs.into_iter().map(|h| h.join().unwrap_or((0, 0))).collect()
    });
    out.count("ws_race_commits_ok", results.iter().map(|r| r.0).sum());
    out.count("commits_failed", results.iter().map(|r| r.1).sum());
    let mut st = block_on(SqliteStorage::new(&dir, AccessMode::ReadWrite, false)).expect("audit open");
    let d = match dump_storage(&mut st) {
        Ok(d) => d,
        Err(e) => {
            out.violate("audit/unreadable".to_string(), e, replay);
            return;
        }
    };
    let mut seen = BTreeSet::new();
    let mut dups = vec![];
    for u in d.ws.iter().flatten() {
        if !seen.insert(*u) {
            dups.push(model::su(*u));
        }
    }
    if !dups.is_empty() {
        out.violate("audit/working-set-duplicate".to_string(), format!("{} task(s) occupy two working-set positions after {workers} handles turned them pending at the same moment, e.g. {:?}", dups.len(), &dups[..dups.len().min(3)]), replay);
        return;
    }
    let pending: BTreeSet<Uuid> = d.tasks.iter().filter(|(_, m)| m.get("status").map(|s| s == "pending").unwrap_or(false)).map(|(u, _)| *u).collect();
    if seen != pending {
        out.violate("audit/working-set-lost-or-duplicated".to_string(), format!("working set holds {} tasks, {} are pending", seen.len(), pending.len()), replay);
        return;
    }
    out.count("ws_race_tasks_checked", pending.len() as u64);
    out.count("rounds_audited", 1);
    out.nontrivial = Some(fnv(format!("wsrace{i}").as_bytes()));
    if i < 1 {
        out.sample = Some(json!({"workers": workers, "tasks_turned_pending_simultaneously": steps, "working_set_entries": seen.len()}));
    }
}

pub fn run(ctx: &Ctx) -> Outcome {
    let mut acc = Acc::default();
    let seed = ctx.seed;
    let only_idx = ctx.replay.as_ref().and_then(|r| r.get("index").and_then(|s| s.as_u64()));
    let (lo, hi) = match only_idx {
        Some(i) => (i, i + 1),
        None => (0, ctx.tier.pick(30, 1500)),
    };
    // rounds themselves are multi-threaded: run few at a time
    let rounds_wanted = ctx.replay.as_ref().and_then(|r| r.get("stratum").and_then(|s| s.as_str())).map(|s| s == "rounds").unwrap_or(true);
    run_cases_threads(&mut acc, "rounds", if rounds_wanted { hi - lo } else { 0 }, 3, |i| {
        let mut out = CaseOut::new();
        round_case(i + lo, seed, &mut out);
        out
    });
    let only = ctx.replay.as_ref().and_then(|r| r.get("stratum").and_then(|s| s.as_str()).map(|s| s.to_string()));
    if only.as_deref().map(|o| o == "ws-race").unwrap_or(true) {
        let (lo2, hi2) = match (only.as_deref(), only_idx) {
            (Some("ws-race"), Some(i)) => (i, i + 1),
            _ => (0, ctx.tier.pick(8, 300)),
        };
        run_cases_threads(&mut acc, "ws-race", hi2 - lo2, 2, |i| {
            let mut out = CaseOut::new();
            ws_race_case(i + lo2, seed, &mut out);
            out
        });
    }
    if only_idx.is_none() {
        acc.require("ws_race_tasks_checked", 100, "too few simultaneous working-set insertions");
        acc.require("commits_ok", 500, "too few successful commits");
        acc.require("worker_switches_in_stored_log", 100, "the stored logs show almost no interleaving between workers");
        acc.require("rounds_with_processes", 1, "no multi-process round");
        acc.require("undos_applied", 10, "too few undos applied");
        acc.require("reader_observations", 50, "too few reader observations");
    }
    Outcome {
        level: "exploration",
        rule: "rounds of 2-8 workers (threads; 1/3 of the rounds child processes), each with its own SqliteStorage handle on one directory, 40 actions each: commit of a 5-operation batch (fresh private task + fresh-property update of one of 3 shared tasks), undo of the log tail (half of the rounds), rebuild in both modes, reads; random sub-millisecond pauses between actions; plus ws-race rounds (3-7 handles turn the same 40 not-yet-listed tasks pending at barrier-synchronised moments); post-hoc audit through a fresh handle of every logged commit/undo against the stored log, replay(log) == tasks, working set, reader states; non-trivial = the stored log interleaves different workers; distinct by the worker sequence of the stored log".into(),
        exhaustive: None,
        acc,
        assumptions: vec![
            "workers start on an initialised directory (concurrent first creation is outside the statement)".into(),
            "the workload only commits operations whose validity and recorded old values cannot be invalidated by other handles (fresh uuids, fresh property names), so that the replay audit is exact even with undo".into(),
            "SQLITE_BUSY failures are legitimate outcomes: the commit must then be entirely absent".into(),
            "schedules are whatever the OS produces; reader-consistency is checked only in rounds without undo".into(),
        ],
        extra: Default::default(),
    }
}

//! C10 — object-store cleanup never deletes history that is still needed (engines E2 + E3).
//!
//! Layouts (chain length 0–12, snapshots at chosen positions, object ages around the 180-day
//! threshold) are built sequentially; then a cleanup run is interleaved, at single-request and
//! list-page granularity, with other clients' add-version / add-snapshot / cleanup runs — invoked
//! explicitly, or arising naturally (two racing adders with the cleanup draw left below 255) —
//! and may be stopped after any of its deletions. Oracles: retrieval walk from the newest retained
//! on-chain snapshot (or from nil), a real fresh replica reconstructing the latest state, retained
//! versions forming a usable suffix, and an audit of every deletion against the three permitted
//! classes.

use serde_json::json;
use std::collections::{BTreeMap, BTreeSet};
use std::future::Future;
use std::pin::Pin;
use std::sync::{Arc, Mutex};
use taskchampion::server::verif::{set_random_source, GateOp};
use taskchampion::storage::inmemory::InMemoryStorage;
use taskchampion::{Replica, Server};
use uuid::Uuid;

use crate::cloud::*;
use crate::exec::{block_on, run_sched, Choice, DecisionSource, DfsSource, Gates, RandomSource, ReplaySource};
use crate::model::{self, Tasks};
use crate::props::c12::encode_snapshot;
use crate::report::{run_cases, Acc, CaseOut, Ctx, Outcome};
use crate::rng::{fnv, Rng};

const DAY: u64 = 86_400;

#[derive(Clone, Debug)]
pub enum Role {
    Cleanup,
    Adder { payloads: usize },
    Snapshotter,
    /// adds one version and stores a snapshot of that new version
    AdderSnapshot,
}

#[derive(Clone, Debug)]
pub struct Layout {
    /// age in days of each prior version (chain order)
    pub ages: Vec<u64>,
    /// chain positions (1-based version index) carrying a snapshot
    pub snapshots: Vec<usize>,
    /// stray objects: (parent position, count) — leftovers of lost attempts
    pub strays: Vec<usize>,
}

pub struct Scenario {
    pub layout: Layout,
    pub roles: Vec<Role>,
    pub page_size: usize,
    /// value returned by the cleanup/urgency draw (255 = never clean up automatically)
    pub draw: u8,
    /// drop the first cleanup client after this many deletions
    pub stop_after_dels: Option<usize>,
    /// instead of dropping the client, make that delete request fail: 1 = error without
    /// performing it, 2 = perform it and then report an error (0 = drop the client)
    pub del_fault: u8,
}

fn task_uuid(n: u128) -> Uuid {
    Uuid::from_u128(0xC10_0000_0000_4000_8000_0000_0000_0000u128 + n)
}

fn payload(tag: u128) -> Vec<u8> {
    format!("{{\"operations\":[{{\"Create\":{{\"uuid\":\"{}\"}}}}]}}", task_uuid(tag)).into_bytes()
}

fn state_of(payloads: &[Vec<u8>]) -> Tasks {
    let mut t = Tasks::new();
    for p in payloads {
        if let Ok(ops) = model::parse_version(p) {
            model::apply_all(&mut t, &ops);
        }
    }
    t
}

/// Wraps a decision source: drops `client` when it is about to issue its (d+1)-th delete.
struct StopAfterDels<'a> {
    inner: &'a mut dyn DecisionSource,
    client: usize,
    d: usize,
    seen: usize,
    dropped: bool,
    fault: u8,
}

impl DecisionSource for StopAfterDels<'_> {
    fn choose(&mut self, step: usize, enabled: &[(usize, String)]) -> Choice {
        let mut ch = self.inner.choose(step, enabled);
        let (c, label) = &enabled[ch.which % enabled.len()];
        if *c == self.client && label.starts_with("Del") && !self.dropped {
            if self.seen == self.d {
                if self.fault == 0 {
                    ch.drop_client = true;
                } else {
                    ch.decision = self.fault;
                }
                self.dropped = true;
            } else {
                self.seen += 1;
            }
        }
        ch
    }
}

pub struct RunInfo {
    pub trace_hash: u64,
    pub deletions: u64,
    pub cleanups: u64,
    pub steps: usize,
}

pub fn run_schedule(tag: &str, index: u64, sc: &Scenario, source: &mut dyn DecisionSource, out: &mut CaseOut, extra: serde_json::Value) -> Option<RunInfo> {
    let world = World::new();
    let mut replay = json!({"stratum": tag, "index": index, "layout": format!("{:?}", sc.layout), "roles": format!("{:?}", sc.roles), "page_size": sc.page_size, "draw": sc.draw, "stop_after_dels": sc.stop_after_dels, "del_fault": sc.del_fault, "extra": extra});
    // ---- sequential layout ----
    set_random_source(Some(Box::new(|| Some(255))));
    let mut chain_ids: Vec<Uuid> = vec![];
    let mut chain_payloads: Vec<Vec<u8>> = vec![];
    let mut creation: BTreeMap<Uuid, u64> = BTreeMap::new();
    {
        let mut h = world.plain(900);
        let mut base = Uuid::nil();
        for (k, age) in sc.layout.ages.iter().enumerate() {
            let when = world.now.saturating_sub(age * DAY);
            world.store.set_clock(when);
            let p = payload(1000 + k as u128);
            match block_on(h.add_version(base, p.clone())) {
                Ok((taskchampion::server::AddVersionResult::Ok(v), _)) => {
                    chain_ids.push(v);
                    chain_payloads.push(p);
                    creation.insert(v, when);
                    base = v;
                }
                other => {
                    out.inconclusive = Some(format!("layout add failed: {:?}", other.map(|x| x.0)));
                    return None;
                }
            }
            if sc.layout.snapshots.contains(&(k + 1)) {
                let snap = encode_snapshot(&state_of(&chain_payloads));
                if block_on(h.add_snapshot(base, snap)).is_err() {
                    out.inconclusive = Some("layout snapshot failed".into());
                    return None;
                }
            }
        }
        // strays: version objects whose parent is on the chain but which never became latest
        for (n, pos) in sc.layout.strays.iter().enumerate() {
            let parent = if *pos == 0 { Uuid::nil() } else { chain_ids[(*pos - 1).min(chain_ids.len().saturating_sub(1))] };
            if chain_ids.is_empty() && *pos > 0 {
                continue;
            }
            let stray = Uuid::from_u128(0x57_0000 + n as u128);
            world.store.put_raw(&version_name(parent, stray), world.now - DAY, b"stray".to_vec());
        }
    }
    world.store.set_clock(world.now);
    set_random_source(None);
    let initial_latest = world.latest();
    let log0 = world.store.log_len();
    // ---- concurrent phase ----
    let draw = sc.draw;
    set_random_source(Some(Box::new(move || Some(draw))));
    let n = sc.roles.len();
    let gates = Gates::new(n);
    let evlog: EvLog = Arc::new(Mutex::new(vec![]));
    let mut futs: Vec<Option<Pin<Box<dyn Future<Output = usize>>>>> = vec![];
    let mut first_cleanup = None;
    for (c, role) in sc.roles.iter().enumerate() {
        let h = world.gated(c, &gates, sc.page_size);
        let f: Pin<Box<dyn Future<Output = usize>>> = match role {
            Role::Cleanup => {
                if first_cleanup.is_none() {
                    first_cleanup = Some(c);
                }
                Box::pin(script_cleanup(h, evlog.clone(), c))
            }
            Role::Adder { payloads } => {
                let ps = (0..*payloads).map(|k| payload(((c as u128 + 1) << 16) + k as u128)).collect();
                Box::pin(script_adder(h, world.store.clone(), evlog.clone(), c, initial_latest.unwrap_or(Uuid::nil()), ps, 6))
            }
            Role::Snapshotter => {
                let snap = encode_snapshot(&state_of(&chain_payloads));
                Box::pin(script_snapshot(h, evlog.clone(), c, initial_latest.unwrap_or(Uuid::nil()), snap))
            }
            Role::AdderSnapshot => Box::pin(script_adder_snapshot(
                h,
                world.store.clone(),
                evlog.clone(),
                c,
                initial_latest.unwrap_or(Uuid::nil()),
                chain_payloads.clone(),
                payload(((c as u128 + 1) << 16) + 0x99),
                |seen| encode_snapshot(&state_of(seen)),
            )),
        };
        futs.push(Some(f));
    }
    let o = match (sc.stop_after_dels, first_cleanup) {
        (Some(d), Some(c)) => {
            let mut w = StopAfterDels { inner: source, client: c, d, seen: 0, dropped: false, fault: sc.del_fault };
            run_sched(&gates, futs, &mut w, 8000)
        }
        _ => run_sched(&gates, futs, source, 8000),
    };
    set_random_source(None);
    if o.watchdog {
        out.inconclusive = Some("scheduler watchdog".into());
        return None;
    }
    replay["schedule"] = json!(o.trace.iter().map(|t| t.0).collect::<Vec<_>>());
    replay["requests"] = json!(o.trace.iter().map(|t| format!("{}:{}{}", t.0, t.1, if t.3 { " DROPPED" } else { "" })).collect::<Vec<_>>());
    // ---- the model chain: prior + accepted adds, in parent order ----
    let events = evlog.lock().unwrap().clone();
    let store_log = world.store.log();
    let mut child_of: BTreeMap<Uuid, (Uuid, Vec<u8>)> = BTreeMap::new(); // parent -> (child, bytes)
    {
        let mut p = Uuid::nil();
        for (v, b) in chain_ids.iter().zip(chain_payloads.iter()) {
            child_of.insert(p, (*v, b.clone()));
            p = *v;
        }
    }
    for ev in &events {
        if let CEv::AddRet { parent, bytes, result: Ok(AddVersionResult2::Ok(v)), .. } = ev {
            if child_of.insert(*parent, (*v, bytes.clone())).is_some() {
                out.violate("two-accepted-children".to_string(), format!("parent {parent} got a second accepted child {v}"), replay);
                return None;
            }
            creation.insert(*v, world.now);
        }
    }
    let mut model_chain: Vec<(Uuid, Uuid, Vec<u8>)> = vec![];
    {
        let mut p = Uuid::nil();
        while let Some((v, b)) = child_of.get(&p) {
            model_chain.push((*v, p, b.clone()));
            p = *v;
            if model_chain.len() > 1000 {
                break;
            }
        }
    }
    // an add whose CAS succeeded but whose client was dropped / errored is also on the chain:
    // extend the model with whatever 'latest' names if it is a direct child of the model tail
    let latest = world.latest();
    let model_tail = model_chain.last().map(|c| c.0);
    if latest != model_tail {
        out.violate("latest-disagrees-with-accepted-versions".to_string(), format!("'latest' = {latest:?}, accepted versions end at {model_tail:?}"), replay);
        return None;
    }
    let cleanups_ran = store_log[log0..].iter().filter(|e| e.op == GateOp::ListPage && e.name == "v-").count() as u64;
    let dels: Vec<&taskchampion::server::verif::LogEntry> = store_log[log0..].iter().filter(|e| e.op == GateOp::Del && (e.outcome == "ok" || e.outcome == "fail-after")).collect();
    out.count("cleanup_runs_started", (cleanups_ran > 0) as u64);
    out.count("objects_deleted", dels.len() as u64);
    let on_chain: BTreeMap<Uuid, usize> = model_chain.iter().enumerate().map(|(i, c)| (c.0, i)).collect();
    let pairs_on_chain: BTreeSet<(Uuid, Uuid)> = model_chain.iter().map(|c| (c.1, c.0)).collect();
    let retained_versions: BTreeSet<(Uuid, Uuid)> = world.version_objects().into_iter().collect();
    let retained_snaps: Vec<Uuid> = world.snapshot_objects();
    let newest_snap_pos: Option<usize> = retained_snaps.iter().filter_map(|s| on_chain.get(s).copied()).max();
    // (iv) deletion audit
    let threshold = world.now.saturating_sub(180 * DAY);
    for d in &dels {
        let name = &d.name;
        if name.starts_with("v-") && name.len() == 67 {
            let p = Uuid::try_parse(&name[2..34]).unwrap_or(Uuid::nil());
            let c = Uuid::try_parse(&name[35..]).unwrap_or(Uuid::nil());
            if !pairs_on_chain.contains(&(p, c)) {
                out.count("deleted_off_chain_objects", 1);
                continue; // off-chain leftovers: whether one "could still join" is judged by the walk below
            }
            let pos = on_chain[&c];
            let old = creation.get(&c).map(|t| *t < threshold).unwrap_or(false);
            let covered = newest_snap_pos.map(|s| pos <= s).unwrap_or(false);
            if !(old && covered) {
                out.violate(
                    "deleted-needed-version".to_string(),
                    format!("cleanup deleted on-chain version #{} of {} ({c}): older than the retention age: {old}; covered by a retained on-chain snapshot: {covered} (newest retained snapshot at #{:?})", pos + 1, model_chain.len(), newest_snap_pos.map(|s| s + 1)),
                    replay,
                );
                return None;
            }
            out.count("deleted_old_covered_versions", 1);
        } else if name.starts_with("s-") {
            let v = Uuid::try_parse(&name[2..]).unwrap_or(Uuid::nil());
            if newest_snap_pos.is_none() && on_chain.contains_key(&v) {
                out.violate("deleted-last-snapshot".to_string(), format!("snapshot {v} deleted although no other on-chain snapshot is retained"), replay);
                return None;
            }
            out.count("deleted_snapshots", 1);
        } else {
            out.violate("deleted-foreign-object".to_string(), format!("cleanup deleted {name}"), replay);
            return None;
        }
    }
    // (i) retrieval walk from the newest retained on-chain snapshot (or nil)
    let start_pos = newest_snap_pos.map(|s| s + 1).unwrap_or(0); // number of versions covered
    let from = if start_pos == 0 { Uuid::nil() } else { model_chain[start_pos - 1].0 };
    match world.walk(from) {
        Ok(w) => {
            let want: Vec<Uuid> = model_chain[start_pos..].iter().map(|c| c.0).collect();
            let got: Vec<Uuid> = w.iter().map(|c| c.0).collect();
            if got != want {
                out.violate(
                    "history-not-retrievable".to_string(),
                    format!("walking from {} retrieves {} of the {} versions up to 'latest' (chain length {}, {} objects deleted, {} version objects left)", if start_pos == 0 { "nil".to_string() } else { format!("snapshot@#{start_pos}") }, got.len(), want.len(), model_chain.len(), dels.len(), retained_versions.len()),
                    replay,
                );
                return None;
            }
            for (g, m) in w.iter().zip(model_chain[start_pos..].iter()) {
                if g.2 != m.2 {
                    out.violate("retrieved-bytes-differ".to_string(), format!("version {}", g.0), replay);
                    return None;
                }
            }
        }
        Err(e) => {
            out.violate("history-not-retrievable".to_string(), e, replay);
            return None;
        }
    }
    // retained on-chain versions form a suffix (a replica based on a retained version can walk on)
    let first_retained = model_chain.iter().position(|c| retained_versions.contains(&(c.1, c.0)));
    if let Some(f) = first_retained {
        if let Some(gap) = model_chain[f..].iter().position(|c| !retained_versions.contains(&(c.1, c.0))) {
            out.violate("gap-in-retained-history".to_string(), format!("version #{} is retained but #{} after it is gone", f + 1, f + gap + 1), replay);
            return None;
        }
    }
    // (ii) a real fresh replica reconstructs the latest state
    {
        let mut rep = Replica::new(InMemoryStorage::new());
        let mut srv: Box<dyn Server> = Box::new(world.plain(997));
        set_random_source(Some(Box::new(|| Some(255))));
        let r = block_on(rep.sync(&mut srv, true));
        set_random_source(None);
        if let Err(e) = r {
            out.violate("fresh-replica-cannot-sync".to_string(), format!("{e:#}"), replay);
            return None;
        }
        let got = block_on(model::replica_tasks(&mut rep)).unwrap_or_default();
        let want = state_of(&model_chain.iter().map(|c| c.2.clone()).collect::<Vec<_>>());
        if got != want {
            out.violate("fresh-replica-wrong-state".to_string(), format!("fresh replica has {} tasks, the chain replay {}", got.len(), want.len()), replay);
            return None;
        }
        out.count("fresh_replicas_synced", 1);
    }
    // (iii) a replica based on the oldest retained version can still sync: walk + add accepted
    if let Some(f) = first_retained {
        let base = model_chain[f].0;
        match world.walk(base) {
            Ok(w) if w.len() == model_chain.len() - f - 1 => {}
            other => {
                out.violate("retained-base-cannot-catch-up".to_string(), format!("from retained version #{} the walk gives {:?}", f + 1, other.map(|w| w.len())), replay);
                return None;
            }
        }
    }
    {
        set_random_source(Some(Box::new(|| Some(255))));
        let mut h = world.plain(996);
        let r = block_on(h.add_version(latest.unwrap_or(Uuid::nil()), payload(0xFFFF)));
        set_random_source(None);
        match r {
            Ok((taskchampion::server::AddVersionResult::Ok(_), _)) => {}
            other => {
                out.violate("cannot-add-after-cleanup".to_string(), format!("add_version(latest) after the schedule: {:?}", other.map(|x| x.0).map_err(|e| e.to_string())), replay);
                return None;
            }
        }
    }
    out.count("schedules", 1);
    if cleanups_ran > 0 {
        out.count("schedules_with_cleanup", 1);
    }
    let th = fnv(format!("{:?}", o.trace.iter().map(|t| (t.0, t.1.clone(), t.3)).collect::<Vec<_>>()).as_bytes());
    Some(RunInfo { trace_hash: th, deletions: dels.len() as u64, cleanups: cleanups_ran, steps: o.trace.len() })
}

fn layouts_small() -> Vec<Layout> {
    vec![
        Layout { ages: vec![1, 1, 1], snapshots: vec![], strays: vec![] },
        Layout { ages: vec![300, 250, 200, 1], snapshots: vec![2], strays: vec![] },
        Layout { ages: vec![300, 250, 1], snapshots: vec![1, 3], strays: vec![3] },
        Layout { ages: vec![1], snapshots: vec![1], strays: vec![1, 0] },
        Layout { ages: vec![], snapshots: vec![], strays: vec![] },
        Layout { ages: vec![400, 390, 380, 370], snapshots: vec![4], strays: vec![2] },
    ]
}

pub fn run(ctx: &Ctx) -> Outcome {
    let mut acc = Acc::default();
    let seed = ctx.seed;
    let only = ctx.replay.as_ref().and_then(|r| r.get("stratum").and_then(|s| s.as_str()).map(|s| s.to_string()));
    let only_idx = ctx.replay.as_ref().and_then(|r| r.get("index").and_then(|s| s.as_u64()));
    let replay_sched: Option<Vec<usize>> = ctx.replay.as_ref().and_then(|r| r.get("schedule")).and_then(|s| s.as_array()).map(|a| a.iter().filter_map(|x| x.as_u64().map(|x| x as usize)).collect());
    let want = |s: &str| only.as_deref().map(|o| o == s).unwrap_or(true);
    let range = |n: u64| -> (u64, u64) { match only_idx { Some(i) => (i, i + 1), None => (0, n) } };

    let dfs_run = |name: &'static str, scs: Vec<Scenario>, budget: u64, acc: &mut Acc| {
        let (lo, hi) = range(scs.len() as u64);
        run_cases(acc, name, hi - lo, |i| {
            let i = i + lo;
            let sc = &scs[i as usize];
            let mut out = CaseOut::new();
            out.evaluations = 0;
            if let Some(s) = &replay_sched {
                let mut src = ReplaySource { clients: s.clone() };
                run_schedule(name, i, sc, &mut src, &mut out, json!({}));
                return out;
            }
            let mut dfs = DfsSource::new();
            let mut runs = 0u64;
            let mut with_del = 0u64;
            let mut done = false;
            loop {
                dfs.begin_run();
                out.evaluations += 1;
                runs += 1;
                match run_schedule(name, i, sc, &mut dfs, &mut out, json!({"dfs_run": runs})) {
                    Some(r) => {
                        if r.cleanups > 0 {
                            out.nontrivial = Some(r.trace_hash);
                        }
                        if r.deletions > 0 {
                            with_del += 1;
                        }
                    }
                    None => break,
                }
                if !dfs.advance() {
                    done = true;
                    break;
                }
                if runs >= budget {
                    break;
                }
            }
            out.count("dfs_schedules", runs);
            out.count("dfs_schedules_with_deletions", with_del);
            if done {
                out.count("dfs_scenarios_exhausted", 1);
            }
            if i < 3 {
                out.sample = Some(json!({"layout": format!("{:?}", sc.layout), "roles": format!("{:?}", sc.roles), "draw": sc.draw, "schedules_enumerated": runs, "exhausted": done, "with_deletions": with_del}));
            }
            out
        });
    };

    if want("dfs-cleanup-vs-add") {
        // exhaustive interleavings of {explicit cleanup || one add_version} on 6 layouts
        let scs = layouts_small().into_iter().map(|l| Scenario { layout: l, roles: vec![Role::Cleanup, Role::Adder { payloads: 1 }], page_size: 2, draw: 255, stop_after_dels: None, del_fault: 0 }).collect();
        dfs_run("dfs-cleanup-vs-add", scs, ctx.tier.pick(4000, 200_000), &mut acc);
    }
    if want("dfs-natural") {
        // mandatory stratum: two racing adders, the draw left below 255 (cleanup arises by itself)
        let scs = vec![
            Scenario { layout: Layout { ages: vec![1], snapshots: vec![], strays: vec![] }, roles: vec![Role::Adder { payloads: 1 }, Role::Adder { payloads: 1 }], page_size: 2, draw: 200, stop_after_dels: None, del_fault: 0 },
            Scenario { layout: Layout { ages: vec![1, 1], snapshots: vec![1], strays: vec![] }, roles: vec![Role::Adder { payloads: 1 }, Role::Adder { payloads: 1 }], page_size: 2, draw: 200, stop_after_dels: None, del_fault: 0 },
        ];
        dfs_run("dfs-natural", scs, ctx.tier.pick(8000, 400_000), &mut acc);
    }
    if want("dfs-cleanup-vs-cleanup") {
        let scs = vec![
            Scenario { layout: Layout { ages: vec![300, 250, 200, 1], snapshots: vec![2], strays: vec![2] }, roles: vec![Role::Cleanup, Role::Cleanup], page_size: 3, draw: 255, stop_after_dels: None, del_fault: 0 },
            Scenario { layout: Layout { ages: vec![300, 1], snapshots: vec![1], strays: vec![] }, roles: vec![Role::Cleanup, Role::Snapshotter], page_size: 2, draw: 255, stop_after_dels: None, del_fault: 0 },
        ];
        dfs_run("dfs-cleanup-vs-cleanup", scs, ctx.tier.pick(3000, 100_000), &mut acc);
    }
    if want("stop-after-deletion") {
        // a cleanup that stops after any of its deletions, for every d, sequentially and against an adder
        let mut scs = vec![];
        // ... or whose d-th delete request fails (not performed / performed and reported failed)
        for d in 0..6 {
            for fault in 0..3u8 {
                scs.push(Scenario { layout: Layout { ages: vec![400, 390, 380, 370, 1], snapshots: vec![2, 4], strays: vec![1, 4] }, roles: vec![Role::Cleanup], page_size: 3, draw: 255, stop_after_dels: Some(d), del_fault: fault });
                scs.push(Scenario { layout: Layout { ages: vec![400, 390, 380, 1], snapshots: vec![3], strays: vec![3] }, roles: vec![Role::Cleanup, Role::Adder { payloads: 1 }], page_size: 3, draw: 255, stop_after_dels: Some(d), del_fault: fault });
            }
        }
        let (lo, hi) = range(scs.len() as u64 * ctx.tier.pick(20, 400));
        let per = ctx.tier.pick(20, 400);
        run_cases(&mut acc, "stop-after-deletion", hi - lo, |i| {
            let i = i + lo;
            let sc = &scs[(i / per) as usize];
            let mut out = CaseOut::new();
            let mut src: Box<dyn DecisionSource> = match &replay_sched {
                Some(s) => Box::new(ReplaySource { clients: s.clone() }),
                None => Box::new(RandomSource { rng: Rng::derive(seed, "c10-stop", i), delay_client: None }),
            };
            if let Some(r) = run_schedule("stop-after-deletion", i, sc, src.as_mut(), &mut out, json!({})) {
                out.count("stopped_cleanups", 1);
                if r.deletions > 0 {
                    out.nontrivial = Some(r.trace_hash);
                }
            }
            out
        });
    }
    if want("cleanup-vs-adder-with-snapshot") {
        // two cleanups racing with a client that adds a version and immediately stores its snapshot,
        // on chains whose early versions are expired and covered by an older snapshot
        let layouts = [
            Layout { ages: vec![400, 390, 1], snapshots: vec![2], strays: vec![] },
            Layout { ages: vec![400, 390, 380, 200], snapshots: vec![3], strays: vec![4] },
            Layout { ages: vec![300, 1], snapshots: vec![1], strays: vec![] },
        ];
        let (lo, hi) = range(ctx.tier.pick(15_000, 600_000));
        run_cases(&mut acc, "cleanup-vs-adder-with-snapshot", hi - lo, |i| {
            let i = i + lo;
            let mut rng = Rng::derive(seed, "c10-cas", i);
            let sc = Scenario { layout: layouts[rng.below(layouts.len())].clone(), roles: vec![Role::Cleanup, Role::AdderSnapshot, Role::Cleanup], page_size: 2 + rng.below(2), draw: 255, stop_after_dels: None, del_fault: 0 };
            let mut out = CaseOut::new();
            let mut src: Box<dyn DecisionSource> = match &replay_sched {
                Some(s) => Box::new(ReplaySource { clients: s.clone() }),
                None => Box::new(RandomSource { rng: Rng::derive(seed, "c10-cas-sched", i), delay_client: if rng.chance(2, 3) { Some(rng.below(3)) } else { None } }),
            };
            if let Some(r) = run_schedule("cleanup-vs-adder-with-snapshot", i, &sc, src.as_mut(), &mut out, json!({})) {
                if r.cleanups > 0 {
                    out.nontrivial = Some(r.trace_hash);
                }
            }
            out
        });
    }
    if want("random") {
        let (lo, hi) = range(ctx.tier.pick(8000, 600_000));
        run_cases(&mut acc, "random", hi - lo, |i| {
            let i = i + lo;
            let mut rng = Rng::derive(seed, "c10-random", i);
            let len = rng.below(13);
            let mut ages: Vec<u64> = (0..len).map(|_| *rng.pick(&[1u64, 10, 179, 181, 200, 400])).collect();
            ages.sort_by(|a, b| b.cmp(a));
            let snapshots: Vec<usize> = (1..=len).filter(|_| rng.chance(1, 4)).collect();
            let strays: Vec<usize> = (0..rng.below(3)).map(|_| rng.below(len + 1)).collect();
            let n = 2 + rng.below(2);
            let mut roles = vec![Role::Cleanup];
            for _ in 1..n {
                roles.push(match rng.below(6) {
                    0 => Role::Cleanup,
                    1 => Role::Snapshotter,
                    2 | 3 => Role::AdderSnapshot,
                    _ => Role::Adder { payloads: 1 + rng.below(2) },
                });
            }
            let natural = rng.chance(1, 4);
            if natural {
                roles[0] = Role::Adder { payloads: 1 + rng.below(2) };
            }
            let sc = Scenario { layout: Layout { ages, snapshots, strays }, roles, page_size: 2 + rng.below(3), draw: if natural { 200 } else { 255 }, stop_after_dels: if rng.chance(1, 5) { Some(rng.below(4)) } else { None }, del_fault: rng.below(3) as u8 };
            let mut out = CaseOut::new();
            let mut src: Box<dyn DecisionSource> = match &replay_sched {
                Some(s) => Box::new(ReplaySource { clients: s.clone() }),
                None => Box::new(RandomSource { rng: Rng::derive(seed, "c10-sched", i), delay_client: if rng.chance(1, 2) { Some(rng.below(n)) } else { None } }),
            };
            if let Some(r) = run_schedule("random", i, &sc, src.as_mut(), &mut out, json!({})) {
                if r.cleanups > 0 {
                    out.nontrivial = Some(r.trace_hash);
                }
                if i < 2 {
                    out.sample = Some(json!({"layout": format!("{:?}", sc.layout), "roles": format!("{:?}", sc.roles), "steps": r.steps, "deletions": r.deletions}));
                }
            }
            out
        });
    }
    if only.is_none() {
        acc.require("schedules_with_cleanup", 500, "too few schedules containing a cleanup");
        acc.require("objects_deleted", 500, "cleanup almost never deleted anything");
        acc.require("deleted_old_covered_versions", 20, "never deleted an old version covered by a snapshot");
        acc.require("deleted_snapshots", 20, "never deleted a redundant snapshot");
        acc.require("stopped_cleanups", 20, "no cleanup was stopped after a deletion");
    }
    Outcome {
        level: "exploration",
        rule: "layouts: chain length 0-12, snapshot positions, ages in {1,10,179,181,200,400} days, stray version objects; concurrent phase: explicit cleanup vs add_version / add_snapshot / second cleanup, or two racing adders with the cleanup draw < 255 (natural trigger); every object-store request and list page is a scheduling point; DFS-exhaustive (budgeted) on small layouts, a stratum dropping the cleanup after its d-th deletion for every d, seeded random otherwise; non-trivial = the schedule contained a cleanup run; distinct by (client, request) sequence (DFS strata: one representative per scenario; totals in monitor_events)".into(),
        exhaustive: None,
        acc,
        assumptions: vec![
            "the object store is the hook's in-memory Service (requests atomic, pages read from current contents, creation times from a controllable clock)".into(),
            "a cleanup that removes a newer snapshot in favour of an older retained on-chain one is recorded, not alarmed".into(),
            "off-chain leftovers may be deleted at any time; whether one 'could still join the chain' is judged by the retrieval walk and the final add_version".into(),
        ],
        extra: Default::default(),
    }
}

//! C16 — SQLite and in-memory storage are observationally equivalent and persistent (engine E4).
//!
//! Lock-step differential execution of contract-respecting `StorageTxn` scripts on both backends
//! through the public trait; every call's result is compared (collections as multisets, errors by
//! class), and a third trivial contract model supplies the answer where the trait documentation
//! fixes it, so that the side that is wrong can be named. SQLite is closed and reopened at random
//! points; legacy-schema databases (0.8, 0.9, (0,1), (0,2)) built by plain SQL are upgraded and
//! compared with their known content; read-only handles must refuse every modification.

use rusqlite::Connection;
use serde_json::json;
use std::collections::BTreeMap;
use taskchampion::storage::inmemory::InMemoryStorage;
use taskchampion::storage::{AccessMode, Storage, StorageTxn, TaskMap};
use taskchampion::{Operation, SqliteStorage};
use uuid::Uuid;

use crate::exec::block_on;
use crate::props::c14::hostile_string;
use crate::report::{run_cases, Acc, CaseOut, Ctx, Outcome};
use crate::rng::{fnv, Rng};
use crate::world::{ts, TempDir};

#[derive(Clone, Debug)]
enum Call {
    GetTask(Uuid),
    GetPendingTasks,
    CreateTask(Uuid),
    SetTask(Uuid, TaskMap),
    DeleteTask(Uuid),
    AllTasks,
    AllTaskUuids,
    BaseVersion,
    SetBaseVersion(Uuid),
    GetTaskOperations(Uuid),
    UnsyncedOperations,
    NumUnsyncedOperations,
    AddOperation(Operation),
    RemoveOperation(Operation),
    SyncComplete,
    GetWorkingSet,
    AddToWorkingSet(Uuid),
    SetWorkingSetItem(usize, Option<Uuid>),
    ClearWorkingSet,
    IsEmpty,
}

fn norm_tasks(mut v: Vec<(Uuid, TaskMap)>) -> String {
    v.sort_by_key(|x| x.0);
    let v: Vec<(Uuid, BTreeMap<String, String>)> = v.into_iter().map(|(u, t)| (u, t.into_iter().collect())).collect();
    format!("{v:?}")
}

/// Canonical text of an operation list: a deleted task's old content is a map and is printed in
/// key order (the Debug text of a HashMap depends on the instance).
fn norm_ops(ops: &[Operation]) -> String {
    let v: Vec<String> = ops
        .iter()
        .map(|o| match o {
            Operation::Delete { uuid, old_task } => format!("Delete {{ uuid: {uuid}, old_task: {:?} }}", old_task.iter().collect::<BTreeMap<_, _>>()),
            other => format!("{other:?}"),
        })
        .collect();
    format!("{v:?}")
}

fn exec(txn: &mut dyn StorageTxn, c: &Call) -> Result<String, String> {
    let e = |e: taskchampion::Error| e.to_string();
    Ok(match c.clone() {
        Call::GetTask(u) => format!("{:?}", block_on(txn.get_task(u)).map_err(e)?.map(|t| t.into_iter().collect::<BTreeMap<_, _>>())),
        Call::GetPendingTasks => norm_tasks(block_on(txn.get_pending_tasks()).map_err(e)?),
        Call::CreateTask(u) => format!("{:?}", block_on(txn.create_task(u)).map_err(e)?),
        Call::SetTask(u, t) => format!("{:?}", block_on(txn.set_task(u, t)).map_err(e)?),
        Call::DeleteTask(u) => format!("{:?}", block_on(txn.delete_task(u)).map_err(e)?),
        Call::AllTasks => norm_tasks(block_on(txn.all_tasks()).map_err(e)?),
        Call::AllTaskUuids => {
            let mut v = block_on(txn.all_task_uuids()).map_err(e)?;
            v.sort();
            format!("{v:?}")
        }
        Call::BaseVersion => format!("{:?}", block_on(txn.base_version()).map_err(e)?),
        Call::SetBaseVersion(v) => format!("{:?}", block_on(txn.set_base_version(v)).map_err(e)?),
        Call::GetTaskOperations(u) => norm_ops(&block_on(txn.get_task_operations(u)).map_err(e)?),
        Call::UnsyncedOperations => norm_ops(&block_on(txn.unsynced_operations()).map_err(e)?),
        Call::NumUnsyncedOperations => format!("{:?}", block_on(txn.num_unsynced_operations()).map_err(e)?),
        Call::AddOperation(o) => format!("{:?}", block_on(txn.add_operation(o)).map_err(e)?),
        Call::RemoveOperation(o) => format!("{:?}", block_on(txn.remove_operation(o)).map_err(e)?),
        Call::SyncComplete => format!("{:?}", block_on(txn.sync_complete()).map_err(e)?),
        Call::GetWorkingSet => format!("{:?}", block_on(txn.get_working_set()).map_err(e)?),
        Call::AddToWorkingSet(u) => format!("{:?}", block_on(txn.add_to_working_set(u)).map_err(e)?),
        Call::SetWorkingSetItem(i, u) => format!("{:?}", block_on(txn.set_working_set_item(i, u)).map_err(e)?),
        Call::ClearWorkingSet => format!("{:?}", block_on(txn.clear_working_set()).map_err(e)?),
        Call::IsEmpty => format!("{:?}", block_on(txn.is_empty()).map_err(e)?),
    })
}

fn call_name(c: &Call) -> &'static str {
    match c {
        Call::GetTask(_) => "get_task",
        Call::GetPendingTasks => "get_pending_tasks",
        Call::CreateTask(_) => "create_task",
        Call::SetTask(..) => "set_task",
        Call::DeleteTask(_) => "delete_task",
        Call::AllTasks => "all_tasks",
        Call::AllTaskUuids => "all_task_uuids",
        Call::BaseVersion => "base_version",
        Call::SetBaseVersion(_) => "set_base_version",
        Call::GetTaskOperations(_) => "get_task_operations",
        Call::UnsyncedOperations => "unsynced_operations",
        Call::NumUnsyncedOperations => "num_unsynced_operations",
        Call::AddOperation(_) => "add_operation",
        Call::RemoveOperation(_) => "remove_operation",
        Call::SyncComplete => "sync_complete",
        Call::GetWorkingSet => "get_working_set",
        Call::AddToWorkingSet(_) => "add_to_working_set",
        Call::SetWorkingSetItem(..) => "set_working_set_item",
        Call::ClearWorkingSet => "clear_working_set",
        Call::IsEmpty => "is_empty",
    }
}

/// The contract model: only what the trait documentation fixes.
#[derive(Clone, Default, PartialEq, Debug)]
struct CM {
    tasks: BTreeMap<Uuid, BTreeMap<String, String>>,
    ops: Vec<(bool, Operation)>,
    ws: Vec<Option<Uuid>>,
    base: Uuid,
}

impl CM {
    fn new() -> CM {
        CM { ws: vec![None], ..Default::default() }
    }
    fn norm_ws(&mut self) {
        while self.ws.len() > 1 && self.ws.last() == Some(&None) {
            self.ws.pop();
        }
    }
    /// Apply the call; returns the answer where the contract fixes it.
    fn apply(&mut self, c: &Call) -> Option<String> {
        match c.clone() {
            Call::GetTask(u) => Some(format!("{:?}", self.tasks.get(&u).cloned())),
            Call::CreateTask(u) => {
                let new = !self.tasks.contains_key(&u);
                self.tasks.entry(u).or_default();
                Some(format!("{new:?}"))
            }
            Call::SetTask(u, t) => {
                self.tasks.insert(u, t.into_iter().collect());
                Some("()".into())
            }
            Call::DeleteTask(u) => Some(format!("{:?}", self.tasks.remove(&u).is_some())),
            Call::AllTasks => Some(format!("{:?}", self.tasks.iter().map(|(u, t)| (*u, t.clone())).collect::<Vec<_>>())),
            Call::AllTaskUuids => Some(format!("{:?}", self.tasks.keys().collect::<Vec<_>>())),
            Call::BaseVersion => Some(format!("{:?}", self.base)),
            Call::SetBaseVersion(v) => {
                self.base = v;
                Some("()".into())
            }
            Call::UnsyncedOperations => Some(norm_ops(&self.ops.iter().filter(|o| !o.0).map(|o| o.1.clone()).collect::<Vec<_>>())),
            Call::NumUnsyncedOperations => Some(format!("{:?}", self.ops.iter().filter(|o| !o.0).count())),
            Call::AddOperation(o) => {
                self.ops.push((false, o));
                Some("()".into())
            }
            Call::RemoveOperation(o) => {
                if self.ops.last().map(|l| !l.0 && l.1 == o).unwrap_or(false) {
                    self.ops.pop();
                    Some("()".into())
                } else {
                    None // an error is expected; class compared between the backends
                }
            }
            Call::SyncComplete => {
                let tasks = &self.tasks;
                self.ops.retain(|(_, op)| op.get_uuid().map(|u| tasks.contains_key(&u)).unwrap_or(true));
                for o in self.ops.iter_mut() {
                    o.0 = true;
                }
                Some("()".into())
            }
            Call::GetTaskOperations(u) => Some(norm_ops(&self.ops.iter().filter(|o| o.1.get_uuid() == Some(u)).map(|o| o.1.clone()).collect::<Vec<_>>())),
            Call::GetWorkingSet => Some(format!("{:?}", self.ws)),
            Call::AddToWorkingSet(u) => {
                self.norm_ws();
                self.ws.push(Some(u));
                // "one greater than the highest used index"
                Some(format!("{:?}", self.ws.len() - 1))
            }
            Call::SetWorkingSetItem(i, u) => {
                self.ws[i] = u;
                self.norm_ws();
                Some("()".into())
            }
            Call::ClearWorkingSet => {
                self.ws = vec![None];
                Some("()".into())
            }
            Call::IsEmpty => Some(format!("{:?}", self.tasks.is_empty() && self.ws == vec![None] && self.base.is_nil() && !self.ops.iter().any(|o| !o.0))),
            Call::GetPendingTasks => {
                let mut v: Vec<(Uuid, BTreeMap<String, String>)> = self.ws.iter().flatten().filter_map(|u| self.tasks.get(u).map(|t| (*u, t.clone()))).collect();
                v.sort_by_key(|x| x.0);
                Some(format!("{v:?}"))
            }
        }
    }
}

fn gen_call(rng: &mut Rng, cm: &CM, pool: &[Uuid]) -> Call {
    let u = *rng.pick(pool);
    let s = |rng: &mut Rng| if rng.chance(1, 3) { hostile_string(rng) } else { format!("s{}", rng.below(20)) };
    match rng.below(24) {
        0 | 1 => Call::GetTask(u),
        2 => Call::GetPendingTasks,
        3 | 4 => Call::CreateTask(u),
        5 | 6 => {
            let mut t = TaskMap::new();
            for _ in 0..rng.below(4) {
                t.insert(s(rng), s(rng));
            }
            if rng.chance(1, 2) {
                t.insert("status".into(), (*rng.pick(&["pending", "completed"])).into());
            }
            Call::SetTask(u, t)
        }
        7 => Call::DeleteTask(u),
        8 => Call::AllTasks,
        9 => Call::AllTaskUuids,
        10 => Call::BaseVersion,
        11 => Call::SetBaseVersion(rng.uuid()),
        12 => Call::GetTaskOperations(u),
        13 => Call::UnsyncedOperations,
        14 => Call::NumUnsyncedOperations,
        15 | 16 | 17 => Call::AddOperation(match rng.below(5) {
            0 => Operation::UndoPoint,
            1 => Operation::Create { uuid: u },
            2 => Operation::Delete { uuid: u, old_task: (0..rng.below(6)).map(|_| (s(rng), s(rng))).collect() },
            _ => Operation::Update { uuid: u, property: s(rng), old_value: if rng.chance(1, 2) { Some(s(rng)) } else { None }, value: if rng.chance(1, 4) { None } else { Some(s(rng)) }, timestamp: ts(rng.range(0, 99)) },
        }),
        18 => {
            // contract: exact last operation and only while it is unsynced; also exercise refusals
            match cm.ops.last() {
                // an *equal* operation, not the same value: a deleted task's old content is a map,
                // rebuilt here entry by entry (equality must not depend on how it was assembled)
                Some((false, op)) if rng.chance(3, 4) => Call::RemoveOperation(match op {
                    Operation::Delete { uuid, old_task } => {
                        let mut entries: Vec<(String, String)> = old_task.iter().map(|(k, v)| (k.clone(), v.clone())).collect();
                        entries.sort();
                        if rng.chance(1, 2) {
                            entries.reverse();
                        }
                        Operation::Delete { uuid: *uuid, old_task: entries.into_iter().collect() }
                    }
                    other => other.clone(),
                }),
                _ => Call::RemoveOperation(Operation::Create { uuid: Uuid::from_u128(0xdead_beef) }),
            }
        }
        19 => Call::SyncComplete,
        20 => Call::GetWorkingSet,
        21 => Call::AddToWorkingSet(u),
        22 => {
            // contract: 1 <= index < current length
            if cm.ws.len() > 1 {
                Call::SetWorkingSetItem(1 + rng.below(cm.ws.len() - 1), if rng.chance(1, 2) { Some(u) } else { None })
            } else {
                Call::GetWorkingSet
            }
        }
        _ => {
            if rng.chance(1, 6) {
                Call::ClearWorkingSet
            } else {
                Call::IsEmpty
            }
        }
    }
}

fn script_case(i: u64, seed: u64, out: &mut CaseOut) {
    let mut rng = Rng::derive(seed, "c16-script", i);
    let replay = json!({"stratum": "scripts", "index": i});
    let dir = TempDir::new("c16");
    let mut mem = InMemoryStorage::new();
    let mut sql = Some(block_on(SqliteStorage::new(dir.path(), AccessMode::ReadWrite, true)).expect("open"));
    let pool: Vec<Uuid> = (0..4).map(|_| rng.uuid()).collect();
    let mut cm = CM::new();
    let mut trail: Vec<String> = vec![];
    let txns = 2 + rng.below(8);
    for _ in 0..txns {
        if rng.chance(1, 4) {
            // close and reopen at an arbitrary point
            sql = None;
            sql = Some(block_on(SqliteStorage::new(dir.path(), AccessMode::ReadWrite, false)).expect("reopen"));
            trail.push("reopen".into());
            out.count("reopens", 1);
        }
        let mut work = cm.clone();
        {
            let mut mt = block_on(mem.txn()).expect("mem txn");
            let mut st = block_on(sql.as_mut().unwrap().txn()).expect("sql txn");
            let n = 1 + rng.below(12);
            for _ in 0..n {
                let c = gen_call(&mut rng, &work, &pool);
                let rm = exec(mt.as_mut(), &c);
                let rs = exec(st.as_mut(), &c);
                let want = work.apply(&c);
                out.count("calls_compared", 1);
                trail.push(format!("{}", call_name(&c)));
                let same = match (&rm, &rs) {
                    (Ok(a), Ok(b)) => a == b,
                    (Err(_), Err(_)) => true,
                    _ => false,
                };
                if !same {
                    let culprit = match (&want, &rm, &rs) {
                        (Some(w), Ok(a), _) if a != w => "in-memory",
                        (Some(w), _, Ok(b)) if b != w => "sqlite",
                        (Some(_), Err(_), Ok(_)) => "in-memory",
                        (Some(_), Ok(_), Err(_)) => "sqlite",
                        _ => "undetermined",
                    };
                    out.violate(
                        format!("differs/{}/{culprit}", call_name(&c)),
                        format!("{}: in-memory {:?} vs sqlite {:?} (contract model: {:?}); call {:?}; trail {:?}", call_name(&c), rm.as_ref().map(|s| crate::model::trunc(s)), rs.as_ref().map(|s| crate::model::trunc(s)), want.as_ref().map(|s| crate::model::trunc(s)), c, trail.iter().rev().take(12).collect::<Vec<_>>()),
                        replay.clone(),
                    );
                    return;
                }
                if let (Some(w), Ok(a)) = (&want, &rm) {
                    if a != w {
                        out.violate(format!("both-differ-from-contract/{}", call_name(&c)), format!("both backends answer {} but the contract fixes {}", crate::model::trunc(a), crate::model::trunc(w)), replay.clone());
                        return;
                    }
                }
                if let (None, Ok(_)) = (&want, &rm) {
                    out.violate(format!("refusal-expected/{}", call_name(&c)), "both backends accepted a call the contract refuses".to_string(), replay.clone());
                    return;
                }
                if want.is_none() {
                    out.count("refusals_compared", 1);
                    // a refused call must not have changed anything; the contract model was not changed either
                }
            }
            if rng.chance(2, 3) {
                let a = block_on(mt.commit());
                let b = block_on(st.commit());
                if a.is_err() || b.is_err() {
                    out.violate("commit-differs".to_string(), format!("commit: in-memory {:?} sqlite {:?}", a.err().map(|e| e.to_string()), b.err().map(|e| e.to_string())), replay.clone());
                    return;
                }
                cm = work;
                trail.push("commit".into());
                out.count("commits", 1);
            } else {
                trail.push("abandon".into());
                out.count("abandons", 1);
            }
        }
        // visibility after commit / abandonment: a fresh transaction on both sees the contract state
        let mut mt = block_on(mem.txn()).expect("mem txn");
        let mut st = block_on(sql.as_mut().unwrap().txn()).expect("sql txn");
        let mut probe = cm.clone();
        for c in [Call::AllTasks, Call::UnsyncedOperations, Call::GetWorkingSet, Call::BaseVersion, Call::GetPendingTasks, Call::IsEmpty, Call::GetTaskOperations(pool[0]), Call::GetTaskOperations(pool[1])] {
            let rm = exec(mt.as_mut(), &c);
            let rs = exec(st.as_mut(), &c);
            let want = probe.apply(&c);
            out.count("calls_compared", 1);
            if rm != rs || rm.as_ref().ok() != want.as_ref() {
                let culprit = if rm.as_ref().ok() != want.as_ref() && rs.as_ref().ok() == want.as_ref() { "in-memory" } else if rs.as_ref().ok() != want.as_ref() && rm.as_ref().ok() == want.as_ref() { "sqlite" } else { "both" };
                out.violate(
                    format!("visibility/{}/{culprit}", call_name(&c)),
                    format!("after {}: {} in-memory {:?} sqlite {:?} contract {:?}", trail.last().unwrap(), call_name(&c), rm.as_ref().map(|s| crate::model::trunc(s)), rs.as_ref().map(|s| crate::model::trunc(s)), want.as_ref().map(|s| crate::model::trunc(s))),
                    replay.clone(),
                );
                return;
            }
        }
    }
    out.nontrivial = Some(fnv(format!("{trail:?}").as_bytes()));
    if i < 2 {
        out.sample = Some(json!({"trail": trail.iter().take(60).collect::<Vec<_>>()}));
    }
}

// ---- legacy-schema fixtures -----------------------------------------------------------------------

const T1: &str = "e2956511-fd47-4e40-926a-52616229c2fa";
const T2: &str = "1d125b41-ee1d-49a7-9319-0506dee414f8";

fn build_fixture(dir: &std::path::Path, version: &str, rng: &mut Rng) -> (BTreeMap<Uuid, BTreeMap<String, String>>, Vec<(bool, Operation)>, Vec<Option<Uuid>>, Uuid) {
    let con = Connection::open(dir.join("taskchampion.sqlite3")).expect("create fixture");
    let x = |q: &str| con.execute(q, []).unwrap_or_else(|e| panic!("fixture sql {q}: {e}"));
    x("CREATE TABLE operations (id INTEGER PRIMARY KEY AUTOINCREMENT, data STRING);");
    x("CREATE TABLE sync_meta (key STRING PRIMARY KEY, value STRING);");
    x("CREATE TABLE tasks (uuid STRING PRIMARY KEY, data STRING);");
    x("CREATE TABLE working_set (id INTEGER PRIMARY KEY, uuid STRING);");
    let with_cols = version != "0.8";
    if with_cols {
        if version == "0.2" {
            x("ALTER TABLE operations ADD COLUMN uuid GENERATED ALWAYS AS (coalesce(json_extract(data, '$.Update.uuid'), json_extract(data, '$.Create.uuid'), json_extract(data, '$.Delete.uuid'))) VIRTUAL");
        } else {
            x("ALTER TABLE operations ADD COLUMN uuid GENERATED ALWAYS AS (coalesce(json_extract(data, \"$.Update.uuid\"), json_extract(data, \"$.Create.uuid\"), json_extract(data, \"$.Delete.uuid\"))) VIRTUAL");
        }
        x("CREATE INDEX operations_by_uuid ON operations (uuid)");
        x("ALTER TABLE operations ADD COLUMN synced bool DEFAULT false");
        x("CREATE INDEX operations_by_synced ON operations (synced)");
    }
    if version == "0.1" || version == "0.2" {
        x("CREATE TABLE version (singleton INTEGER PRIMARY KEY CHECK (singleton = 0), major INTEGER, minor INTEGER)");
        x(&format!("INSERT INTO version (singleton, major, minor) VALUES (0, 0, {})", if version == "0.1" { 1 } else { 2 }));
    }
    let u1 = Uuid::parse_str(T1).unwrap();
    let u2 = Uuid::parse_str(T2).unwrap();
    let mut tasks = BTreeMap::new();
    let mut ops = vec![];
    let weird = hostile_string(rng);
    for (u, desc) in [(u1, "one".to_string()), (u2, weird)] {
        let mut t = BTreeMap::new();
        t.insert("status".to_string(), "pending".to_string());
        t.insert("description".to_string(), desc.clone());
        t.insert("entry".to_string(), "1724612771".to_string());
        con.execute("INSERT INTO tasks VALUES (?, ?)", rusqlite::params![u.to_string(), serde_json::to_string(&t).unwrap()]).unwrap();
        tasks.insert(u, t);
        let synced = with_cols && u == u1;
        for op in [
            Operation::Create { uuid: u },
            Operation::Update { uuid: u, property: "description".into(), old_value: None, value: Some(desc.clone()), timestamp: chrono::DateTime::parse_from_rfc3339("2024-08-25T19:06:11.840482523Z").unwrap().into() },
        ] {
            let data = serde_json::to_string(&op).unwrap();
            if with_cols {
                con.execute("INSERT INTO operations (data, synced) VALUES (?, ?)", rusqlite::params![data, synced]).unwrap();
            } else {
                con.execute("INSERT INTO operations (data) VALUES (?)", rusqlite::params![data]).unwrap();
            }
            ops.push((synced, op));
        }
    }
    if !with_cols || rng.chance(1, 2) {
        let data = serde_json::to_string(&Operation::UndoPoint).unwrap();
        con.execute("INSERT INTO operations (data) VALUES (?)", rusqlite::params![data]).unwrap();
        ops.push((false, Operation::UndoPoint));
    }
    con.execute("INSERT INTO working_set VALUES (1, ?)", rusqlite::params![T1]).unwrap();
    con.execute("INSERT INTO working_set VALUES (3, ?)", rusqlite::params![T2]).unwrap();
    let base = rng.uuid();
    con.execute("INSERT INTO sync_meta (key, value) VALUES ('base_version', ?)", rusqlite::params![base.to_string()]).unwrap();
    (tasks, ops, vec![None, Some(u1), None, Some(u2)], base)
}

fn fixture_case(i: u64, seed: u64, out: &mut CaseOut) {
    let mut rng = Rng::derive(seed, "c16-fixture", i);
    let version = ["0.8", "0.9", "0.1", "0.2"][(i % 4) as usize];
    let replay = json!({"stratum": "fixtures", "index": i, "schema": version});
    let dir = TempDir::new("c16fx");
    let (tasks, ops, ws, base) = build_fixture(dir.path(), version, &mut rng);
    // read-only on a legacy fixture: no modification may be accepted (reads may fail before upgrade)
    if let Ok(mut ro) = block_on(SqliteStorage::new(dir.path(), AccessMode::ReadOnly, false)) {
        if let Ok(mut t) = block_on(ro.txn()) {
            for c in [Call::CreateTask(Uuid::from_u128(1)), Call::SetBaseVersion(Uuid::from_u128(2)), Call::AddToWorkingSet(Uuid::from_u128(3)), Call::AddOperation(Operation::UndoPoint), Call::ClearWorkingSet, Call::SyncComplete] {
                if exec(t.as_mut(), &c).is_ok() {
                    out.violate(format!("read-only-accepted/{}", call_name(&c)), format!("read-only handle on a {version} database accepted {}", call_name(&c)), replay.clone());
                    return;
                }
                out.count("read_only_refusals", 1);
            }
            if block_on(t.commit()).is_ok() {
                out.violate("read-only-accepted/commit".to_string(), "read-only commit succeeded".to_string(), replay.clone());
                return;
            }
        }
    }
    // upgrade by opening read-write, then compare with the known content — twice (reopen)
    for round in 0..2 {
        let mut st = match block_on(SqliteStorage::new(dir.path(), AccessMode::ReadWrite, false)) {
            Ok(s) => s,
            Err(e) => {
                out.violate(format!("upgrade-failed/{version}"), format!("{e}"), replay.clone());
                return;
            }
        };
        let mut t = block_on(st.txn()).expect("txn");
        let mut cm = CM { tasks: tasks.clone(), ops: ops.clone(), ws: ws.clone(), base };
        for c in [Call::AllTasks, Call::UnsyncedOperations, Call::NumUnsyncedOperations, Call::GetWorkingSet, Call::BaseVersion, Call::GetTaskOperations(Uuid::parse_str(T1).unwrap()), Call::GetTaskOperations(Uuid::parse_str(T2).unwrap()), Call::GetPendingTasks, Call::IsEmpty] {
            let got = exec(t.as_mut(), &c);
            let want = cm.apply(&c);
            out.count("fixture_reads_compared", 1);
            if got.as_ref().ok() != want.as_ref() {
                out.violate(format!("upgrade-content/{version}/{}", call_name(&c)), format!("round {round}: {} after upgrading a {version} database: got {:?} want {:?}", call_name(&c), got.as_ref().map(|s| crate::model::trunc(s)), want.as_ref().map(|s| crate::model::trunc(s))), replay.clone());
                return;
            }
        }
    }
    // read-only on the upgraded database: reads agree, modifications refused
    let mut ro = match block_on(SqliteStorage::new(dir.path(), AccessMode::ReadOnly, false)) {
        Ok(s) => s,
        Err(e) => {
            out.violate("read-only-open-failed".to_string(), format!("{e}"), replay.clone());
            return;
        }
    };
    let mut t = block_on(ro.txn()).expect("ro txn");
    let mut cm = CM { tasks: tasks.clone(), ops: ops.clone(), ws: ws.clone(), base };
    for c in [Call::AllTasks, Call::UnsyncedOperations, Call::GetWorkingSet, Call::BaseVersion, Call::GetPendingTasks] {
        let got = exec(t.as_mut(), &c);
        let want = cm.apply(&c);
        if got.as_ref().ok() != want.as_ref() {
            out.violate(format!("read-only-read/{}", call_name(&c)), format!("read-only {}: got {:?} want {:?}", call_name(&c), got.as_ref().map(|s| crate::model::trunc(s)), want.as_ref().map(|s| crate::model::trunc(s))), replay.clone());
            return;
        }
    }
    for c in [
        Call::CreateTask(Uuid::from_u128(1)), Call::SetTask(Uuid::from_u128(1), TaskMap::new()), Call::DeleteTask(Uuid::parse_str(T1).unwrap()), Call::SetBaseVersion(Uuid::from_u128(2)),
        Call::AddOperation(Operation::UndoPoint), Call::RemoveOperation(Operation::UndoPoint), Call::SyncComplete, Call::AddToWorkingSet(Uuid::from_u128(3)), Call::SetWorkingSetItem(1, None), Call::ClearWorkingSet,
    ] {
        if exec(t.as_mut(), &c).is_ok() {
            out.violate(format!("read-only-accepted/{}", call_name(&c)), format!("read-only handle accepted {}", call_name(&c)), replay.clone());
            return;
        }
        out.count("read_only_refusals", 1);
    }
    if block_on(t.commit()).is_ok() {
        out.violate("read-only-accepted/commit".to_string(), "read-only commit succeeded".to_string(), replay.clone());
        return;
    }
    drop(t);
    drop(ro);
    // nothing changed
    let mut st = block_on(SqliteStorage::new(dir.path(), AccessMode::ReadWrite, false)).expect("reopen");
    let mut t = block_on(st.txn()).expect("txn");
    let mut cm2 = CM { tasks, ops, ws, base };
    for c in [Call::AllTasks, Call::UnsyncedOperations, Call::GetWorkingSet, Call::BaseVersion] {
        if exec(t.as_mut(), &c).ok() != cm2.apply(&c) {
            out.violate("read-only-changed-data".to_string(), format!("{} differs after read-only use", call_name(&c)), replay.clone());
            return;
        }
    }
    // read-only on a missing database
    let empty = TempDir::new("c16ro");
    match block_on(SqliteStorage::new(empty.path().join("nope"), AccessMode::ReadOnly, false)) {
        Ok(_) => out.count("read_only_missing_db_opened", 1),
        Err(_) => out.count("read_only_missing_db_refused", 1),
    }
    out.nontrivial = Some(fnv(format!("{version}{i}").as_bytes()));
    if i < 4 {
        out.sample = Some(json!({"schema": version, "tasks": 2, "operations": cm2.ops.len(), "working_set": format!("{:?}", cm2.ws)}));
    }
}

pub fn run(ctx: &Ctx) -> Outcome {
    let mut acc = Acc::default();
    let seed = ctx.seed;
    let only = ctx.replay.as_ref().and_then(|r| r.get("stratum").and_then(|s| s.as_str()).map(|s| s.to_string()));
    let only_idx = ctx.replay.as_ref().and_then(|r| r.get("index").and_then(|s| s.as_u64()));
    let want = |s: &str| only.as_deref().map(|o| o == s).unwrap_or(true);
    let range = |n: u64| -> (u64, u64) { match only_idx { Some(i) => (i, i + 1), None => (0, n) } };
    if want("scripts") {
        let (lo, hi) = range(ctx.tier.pick(2000, 150_000));
        run_cases(&mut acc, "scripts", hi - lo, |i| {
            let mut out = CaseOut::new();
            script_case(i + lo, seed, &mut out);
            out
        });
    }
    if want("fixtures") {
        let (lo, hi) = range(ctx.tier.pick(40, 2000));
        run_cases(&mut acc, "fixtures", hi - lo, |i| {
            let mut out = CaseOut::new();
            fixture_case(i + lo, seed, &mut out);
            out
        });
    }
    if only.is_none() {
        acc.require("calls_compared", 20_000, "too few calls compared");
        acc.require("reopens", 100, "too few close/reopen points");
        acc.require("abandons", 100, "too few abandoned transactions");
        acc.require("read_only_refusals", 100, "too few read-only refusals");
    }
    Outcome {
        level: "exploration",
        rule: "scripts: 2-9 transactions of 1-12 random StorageTxn calls over all 20 methods (hostile strings, operations of every kind, contract guards: set_working_set_item only inside the current length, remove_operation with an operation equal to (but built independently of) the last unsynced one, or a deliberate refusal, no call after commit), commit or abandon, SQLite close/reopen at random points; every result compared between the backends and with the contract model; fixtures: databases built with plain SQL under the 0.8 / 0.9 / (0,1) / (0,2) schemas, read-only refusal before upgrade, content after upgrade (twice), read-only reads and refusals, missing database; distinct by call trail".into(),
        exhaustive: None,
        acc,
        assumptions: vec![
            "collections compared as multisets; errors by class (ok/err)".into(),
            "on legacy schemas a read-only handle is only required to refuse modifications (it cannot upgrade)".into(),
        ],
        extra: Default::default(),
    }
}

//! C19 — task mutators, their recorded operations and the task model agree (E1).
//!
//! For random sequences of Task / TaskData mutator calls the harness keeps its own map updated by
//! the *documented* effect of each call, and checks: the Task the caller holds equals that map
//! after every call; every recorded Update carries the value the property really had before (a
//! shadow map replayed operation by operation); committing the recorded operations stores exactly
//! the task the caller held; the end / modified / reserved-name rules; and, after commit, synthetic
//! tags and the dependency map against an independent computation from the stored data.

use chrono::{DateTime, Utc};
use serde_json::json;
use std::collections::{BTreeMap, BTreeSet};
use std::str::FromStr;
use taskchampion::{Annotation, Operation, Operations, Status, Tag, Task, TaskData};
use uuid::Uuid;

use crate::exec::block_on;
use crate::model::{self, TaskM, Tasks};
use crate::props::c14::hostile_string;
use crate::report::{run_cases, Acc, CaseOut, Ctx, Outcome};
use crate::rng::{fnv, Rng};
use crate::srv::ChainRef;
use crate::world::*;

fn task_map(t: &Task) -> TaskM {
    t.clone().into_task_data().iter().map(|(k, v)| (k.clone(), v.clone())).collect()
}

fn data_map(t: &TaskData) -> TaskM {
    t.iter().map(|(k, v)| (k.clone(), v.clone())).collect()
}

fn is_reserved(key: &str) -> bool {
    matches!(key, "description" | "due" | "modified" | "start" | "status" | "priority" | "wait" | "end" | "entry")
        || key.starts_with("tag_")
        || key.starts_with("annotation_")
        || key.starts_with("dep_")
}

/// Marker for "a timestamp taken from the clock during the call".
const NOW: &str = "\u{1}NOW";

struct Session {
    /// expected content, with NOW placeholders resolved after each call
    expect: TaskM,
    /// true once `modified` has been touched in this session (implicitly or explicitly)
    modified_done: bool,
    implicit_modified: u32,
    explicit_first: bool,
    any_effective: bool,
}

impl Session {
    fn touch(&mut self, prop: &str) {
        // documented: refreshed once per editing session and never when set explicitly
        if prop != "modified" && !self.modified_done {
            self.expect.insert("modified".into(), NOW.into());
            self.implicit_modified += 1;
        }
        if !self.any_effective && prop == "modified" {
            self.explicit_first = true;
        }
        self.any_effective = true;
        self.modified_done = true;
    }
    fn set(&mut self, prop: &str, value: Option<String>) {
        self.touch(prop);
        match value {
            Some(v) => {
                self.expect.insert(prop.to_string(), v);
            }
            None => {
                self.expect.remove(prop);
            }
        }
    }
    fn set_status(&mut self, s: &str) {
        match s {
            "pending" | "recurring" => {
                if self.expect.contains_key("end") {
                    self.set("end", None);
                }
            }
            "completed" | "deleted" => {
                if !self.expect.contains_key("end") {
                    self.set("end", Some(NOW.into()));
                }
            }
            _ => {}
        }
        self.set("status", Some(s.to_string()));
    }
}

fn ts_of(secs: i64) -> DateTime<Utc> {
    DateTime::from_timestamp(secs, 0).unwrap()
}

/// Apply one random mutator to the real task and its documented effect to the session model.
/// Returns a description and whether the call was expected to fail (and did).
#[allow(deprecated)]
fn mutate(rng: &mut Rng, t: &mut Task, s: &mut Session, ops: &mut Operations, peers: &[Uuid]) -> Result<String, String> {
    let tsv = rng.range(-100_000, 4_000_000_000);
    let txt = if rng.chance(1, 3) { hostile_string(rng) } else { format!("v{}", rng.below(50)) };
    let tagname = *rng.pick(&["a", "next", "home:x_no", "läbel", "t1", "+bad", "WAITING", "PENDING", "x y"]);
    let udak = *rng.pick(&["github.id", "estimate", "status", "tag_x", "annotation_5", "dep_1", "modified", "end", "my.uda.key", "jira"]);
    let n_ops = ops.len();
    let choice = rng.below(28);
    let (desc, res, expect_err): (String, Result<(), taskchampion::Error>, bool) = match choice {
        0 => {
            let st = *rng.pick(&["pending", "completed", "deleted", "recurring", "strange"]);
            let status = match st {
                "pending" => Status::Pending,
                "completed" => Status::Completed,
                "deleted" => Status::Deleted,
                "recurring" => Status::Recurring,
                o => Status::Unknown(o.into()),
            };
            s.set_status(st);
            (format!("set_status({st})"), t.set_status(status, ops), false)
        }
        1 => {
            s.set("description", Some(txt.clone()));
            (format!("set_description({})", model::trunc(&txt)), t.set_description(txt, ops), false)
        }
        2 => {
            s.set("priority", Some(txt.clone()));
            ("set_priority".into(), t.set_priority(txt, ops), false)
        }
        3 | 4 | 5 => {
            let v = if rng.chance(1, 4) { None } else { Some(ts_of(tsv)) };
            let (name, prop) = match choice {
                3 => ("set_entry", "entry"),
                4 => ("set_wait", "wait"),
                _ => ("set_due", "due"),
            };
            s.set(prop, v.map(|x| x.timestamp().to_string()));
            let r = match choice {
                3 => t.set_entry(v, ops),
                4 => t.set_wait(v, ops),
                _ => t.set_due(v, ops),
            };
            (format!("{name}({:?})", v.map(|x| x.timestamp())), r, false)
        }
        6 => {
            s.set("modified", Some(tsv.to_string()));
            (format!("set_modified({tsv})"), t.set_modified(ts_of(tsv), ops), false)
        }
        7 | 8 => {
            let p = if rng.chance(1, 2) { format!("x{}", rng.below(4)) } else { (*rng.pick(&["modified", "status", "end", "start", "tag_z", "dep_zz", "description"])).to_string() };
            let v = if rng.chance(1, 4) { None } else { Some(txt.clone()) };
            s.set(&p, v.clone());
            (format!("set_value({p},{:?})", v.as_deref().map(model::trunc)), t.set_value(p, v, ops), false)
        }
        9 => {
            if !s.expect.contains_key("start") {
                s.set("start", Some(NOW.into()));
            }
            ("start".into(), t.start(ops), false)
        }
        10 => {
            s.set("start", None);
            ("stop".into(), t.stop(ops), false)
        }
        11 => {
            s.set_status("completed");
            ("done".into(), t.done(ops), false)
        }
        12 => {
            s.set_status("deleted");
            ("delete".into(), t.delete(ops), false)
        }
        13 | 14 => match Tag::from_str(tagname) {
            Ok(tag) => {
                let synth = tag.is_synthetic();
                let add = choice == 13;
                if !synth {
                    s.set(&format!("tag_{tagname}"), if add { Some(String::new()) } else { None });
                }
                (format!("{}({tagname})", if add { "add_tag" } else { "remove_tag" }), if add { t.add_tag(&tag, ops) } else { t.remove_tag(&tag, ops) }, synth)
            }
            Err(_) => (format!("invalid tag {tagname} rejected at parse"), Ok(()), false),
        },
        15 => {
            s.set(&format!("annotation_{tsv}"), Some(txt.clone()));
            (format!("add_annotation({tsv})"), t.add_annotation(Annotation { entry: ts_of(tsv), description: txt }, ops), false)
        }
        16 => {
            // remove an existing annotation when there is one
            let existing: Vec<i64> = s.expect.keys().filter_map(|k| k.strip_prefix("annotation_").and_then(|x| x.parse().ok())).filter(|x: &i64| DateTime::from_timestamp(*x, 0).is_some()).collect();
            let e = if existing.is_empty() { tsv } else { *rng.pick(&existing) };
            s.set(&format!("annotation_{e}"), None);
            (format!("remove_annotation({e})"), t.remove_annotation(ts_of(e), ops), false)
        }
        17 | 18 => {
            let bad = is_reserved(udak);
            let set = choice == 17;
            if !bad {
                s.set(udak, if set { Some(txt.clone()) } else { None });
            }
            (
                format!("{}({udak})", if set { "set_user_defined_attribute" } else { "remove_user_defined_attribute" }),
                if set { t.set_user_defined_attribute(udak, txt, ops) } else { t.remove_user_defined_attribute(udak, ops) },
                bad,
            )
        }
        19 | 20 => {
            let (ns, key) = *rng.pick(&[("ns", "key"), ("", "plain"), ("", "status"), ("tag_", "x"), ("a.b", "c")]);
            let full = if ns.is_empty() { key.to_string() } else { format!("{ns}.{key}") };
            let bad = is_reserved(&full);
            let set = choice == 19;
            if !bad {
                s.set(&full, if set { Some(txt.clone()) } else { None });
            }
            (format!("{}({ns},{key})", if set { "set_uda" } else { "remove_uda" }), if set { t.set_uda(ns, key, txt, ops) } else { t.remove_uda(ns, key, ops) }, bad)
        }
        21 | 22 => {
            let bad = is_reserved(udak);
            let set = choice == 21;
            if !bad {
                s.set(udak, if set { Some(txt.clone()) } else { None });
            }
            (format!("{}({udak})", if set { "set_legacy_uda" } else { "remove_legacy_uda" }), if set { t.set_legacy_uda(udak, txt, ops) } else { t.remove_legacy_uda(udak, ops) }, bad)
        }
        23 | 24 => {
            let d = *rng.pick(peers);
            let add = choice == 23;
            s.set(&format!("dep_{d}"), if add { Some(String::new()) } else { None });
            (format!("{}({})", if add { "add_dependency" } else { "remove_dependency" }, model::su(d)), if add { t.add_dependency(d, ops) } else { t.remove_dependency(d, ops) }, false)
        }
        25 => {
            let p = *rng.pick(&["due", "wait", "scheduled", "modified"]);
            let v = if rng.chance(1, 4) { None } else { Some(ts_of(tsv)) };
            s.set(p, v.map(|x| x.timestamp().to_string()));
            (format!("set_timestamp({p})"), t.set_timestamp(p, v, ops), false)
        }
        _ => {
            let p = format!("x{}", rng.below(4));
            s.set(&p, Some(txt.clone()));
            ("set_value(uda)".into(), t.set_value(p, Some(txt), ops), false)
        }
    };
    match (&res, expect_err) {
        (Err(_), true) => {
            if ops.len() != n_ops {
                return Err(format!("rejected:{desc} recorded an operation although it was rejected"));
            }
            Ok(format!("{desc} -> rejected"))
        }
        (Ok(()), true) => Err(format!("reserved:{desc} accepted a reserved name / synthetic tag")),
        (Err(e), false) => Err(format!("error:{desc} failed: {e}")),
        (Ok(()), false) => Ok(desc),
    }
}

/// Resolve NOW placeholders against the real task: the real value must be an integer within the
/// clock window of the call.
fn resolve_now(s: &mut Session, real: &TaskM, t0: i64, t1: i64) -> Result<(), String> {
    let keys: Vec<String> = s.expect.iter().filter(|(_, v)| v.as_str() == NOW).map(|(k, _)| k.clone()).collect();
    for k in keys {
        let v = real.get(&k).ok_or_else(|| format!("{k} missing (expected a current timestamp)"))?;
        let n: i64 = v.parse().map_err(|_| format!("{k}={v} is not an integer timestamp"))?;
        if n < t0 || n > t1 {
            return Err(format!("{k}={n} outside the call window {t0}..{t1}"));
        }
        s.expect.insert(k, v.clone());
    }
    Ok(())
}

fn synth_expect(u: Uuid, tasks: &Tasks, ws: &BTreeSet<Uuid>, now: i64) -> BTreeMap<&'static str, bool> {
    let t = &tasks[&u];
    let status = t.get("status").map(|s| s.as_str()).unwrap_or("pending");
    let deps = |who: Uuid| -> BTreeSet<Uuid> {
        let mut out = BTreeSet::new();
        if ws.contains(&who) {
            if let Some(tm) = tasks.get(&who) {
                for k in tm.keys() {
                    if let Some(d) = k.strip_prefix("dep_").and_then(|d| Uuid::parse_str(d).ok()) {
                        if tasks.get(&d).and_then(|x| x.get("status")).map(|s| s == "pending").unwrap_or(false) {
                            out.insert(d);
                        }
                    }
                }
            }
        }
        out
    };
    let blocked = !deps(u).is_empty();
    let blocking = tasks.keys().any(|w| deps(*w).contains(&u));
    let waiting = t.get("wait").and_then(|w| w.parse::<i64>().ok()).and_then(|w| DateTime::from_timestamp(w, 0)).map(|w| w.timestamp() > now).unwrap_or(false);
    [
        ("WAITING", waiting),
        ("ACTIVE", t.contains_key("start")),
        ("PENDING", status == "pending"),
        ("COMPLETED", status == "completed"),
        ("DELETED", status == "deleted"),
        ("BLOCKED", blocked),
        ("UNBLOCKED", !blocked),
        ("BLOCKING", blocking),
    ]
    .into_iter()
    .collect()
}

fn case(i: u64, seed: u64, out: &mut CaseOut) {
    let mut rng = Rng::derive(seed, "c19", i);
    let replay = json!({"stratum": "mutators", "index": i});
    let chain = ChainRef::new();
    let kind = if rng.chance(1, 10) { StoreKind::Sqlite } else { StoreKind::Mem };
    let mut r = new_replica(0, kind, &chain);
    let peers: Vec<Uuid> = (0..4).map(|_| rng.uuid()).collect();
    // prior state: tasks in any state (always with an explicit status, see DESIGN §5a)
    let mut abs = vec![];
    for u in &peers {
        abs.push(AbsOp::Create(*u));
        abs.push(AbsOp::Set(*u, "status".into(), (*rng.pick(&["pending", "pending", "completed", "deleted", "recurring", "odd"])).to_string(), ts(1)));
        for _ in 0..rng.below(4) {
            let k = (*rng.pick(&["end", "start", "wait", "modified", "tag_old", "annotation_1600000000", "uda1", "description", "due"])).to_string();
            let v = if rng.chance(1, 2) { rng.range(0, 4_000_000_000).to_string() } else { hostile_string(&mut rng) };
            abs.push(AbsOp::Set(*u, k, v, ts(1)));
        }
        if rng.chance(1, 2) {
            abs.push(AbsOp::Set(*u, format!("dep_{}", rng.pick(&peers)), "".into(), ts(1)));
        }
    }
    let ops = concretise(&mut r.rep, &abs).unwrap_or_default();
    if block_on(r.rep.commit_operations(ops)).is_err() {
        out.inconclusive = Some("setup failed".into());
        return;
    }
    let mut trail = vec![];
    let sessions = 1 + rng.below(5);
    for _ in 0..sessions {
        let u = *rng.pick(&peers);
        let low_level = rng.chance(1, 5);
        let stored = block_on(r.rep.get_task_data(u)).ok().flatten();
        let Some(stored) = stored else { continue };
        if rng.chance(1, 10) {
            // purge the task outright (TaskData::delete): the recorded operation must carry the old
            // content, and everything derived from the task (dependency map, synthetic tags of the
            // tasks depending on it) must follow
            let want_old: TaskM = data_map(&stored);
            let mut td = stored;
            let mut ops = Operations::new();
            td.delete(&mut ops);
            trail.push(format!("TaskData::delete({})", model::su(u)));
            let ok = matches!(ops.as_slice(), [Operation::Delete { uuid, old_task }] if *uuid == u && model::taskmap_to_m(old_task) == want_old);
            if !ok {
                out.violate("ops/delete-old-task", format!("TaskData::delete recorded {:?}", show_ops(&ops)), replay.clone());
                return;
            }
            if let Err(e) = block_on(r.rep.commit_operations(ops)) {
                out.violate("commit-error", format!("{e:#}"), replay.clone());
                return;
            }
            if block_on(r.rep.get_task_data(u)).ok().flatten().is_some() {
                out.violate("commit/purged-task-still-stored", "task still exists after committing its Delete".to_string(), replay.clone());
                return;
            }
            out.count("purges", 1);
        } else {
        let stored_map = data_map(&stored);
        let mut ops = Operations::new();
        let final_map: TaskM;
        if low_level {
            // TaskData mutators: no implicit `modified`
            let mut td = stored;
            let mut expect = stored_map.clone();
            for _ in 0..(1 + rng.below(8)) {
                let p = if rng.chance(1, 2) { format!("x{}", rng.below(3)) } else { (*rng.pick(&["status", "modified", "end", "tag_q"])).to_string() };
                let v = if rng.chance(1, 4) { None } else { Some(hostile_string(&mut rng)) };
                td.update(p.clone(), v.clone(), &mut ops);
                match v {
                    Some(v) => {
                        expect.insert(p.clone(), v);
                    }
                    None => {
                        expect.remove(&p);
                    }
                }
                trail.push(format!("TaskData::update({p})"));
                if rng.chance(1, 6) {
                    // an importer's idempotent "make sure it exists": a Create recorded for a task
                    // that exists changes nothing (the returned empty object is not the one held)
                    let _ = taskchampion::TaskData::create(td.get_uuid(), &mut ops);
                    trail.push("TaskData::create(existing)".to_string());
                    out.count("creates_recorded_for_existing_tasks", 1);
                }
                if data_map(&td) != expect {
                    out.violate("taskdata/getter-mismatch", format!("TaskData differs from the model after update({p}); trail {trail:?}"), replay.clone());
                    return;
                }
            }
            final_map = expect;
            out.count("low_level_sessions", 1);
        } else {
            let Some(mut t) = block_on(r.rep.get_task(u)).ok().flatten() else { continue };
            let mut s = Session { expect: stored_map.clone(), modified_done: false, implicit_modified: 0, explicit_first: false, any_effective: false };
            let calls = 1 + rng.below(25);
            let mut explicit_modified_calls = 0u32;
            for _ in 0..calls {
                let t0 = Utc::now().timestamp();
                let before_ops = ops.len();
                let res = mutate(&mut rng, &mut t, &mut s, &mut ops, &peers);
                let t1 = Utc::now().timestamp();
                out.count("mutator_calls", 1);
                match res {
                    Ok(d) => {
                        if d.contains("set_modified") || d.contains("set_value(modified") || d.contains("set_timestamp(modified") {
                            explicit_modified_calls += 1;
                        }
                        if d.ends_with("rejected") {
                            out.count("reserved_names_rejected", 1);
                        }
                        trail.push(d);
                    }
                    Err(e) => {
                        let (class, msg) = e.split_once(':').unwrap_or(("mutator", &e));
                        out.violate(format!("mutator/{class}"), format!("{msg}; trail {trail:?}"), replay.clone());
                        return;
                    }
                }
                let real = task_map(&t);
                if let Err(e) = resolve_now(&mut s, &real, t0, t1) {
                    out.violate("model-rule/clock-value", format!("{e}; trail {trail:?}"), replay.clone());
                    return;
                }
                if real != s.expect {
                    let d = model::diff_tasks(&[(u, real.clone())].into_iter().collect(), &[(u, s.expect.clone())].into_iter().collect());
                    let class = if d.contains(".end:") { "end-rule" } else if d.contains(".modified:") { "modified-rule" } else { "getter-mismatch" };
                    out.violate(format!("model-rule/{class}"), format!("the Task the caller holds differs from the documented effect: {d}; trail {trail:?}"), replay.clone());
                    return;
                }
                let _ = before_ops;
            }
            // modified refreshed at most once per session, never after / instead of an explicit set
            let modified_ops = ops.iter().filter(|o| matches!(o, Operation::Update { property, .. } if property == "modified")).count() as u32;
            let implicit = modified_ops.saturating_sub(explicit_modified_calls);
            let want_implicit = if s.any_effective && !s.explicit_first { 1 } else { 0 };
            if implicit != want_implicit || implicit != s.implicit_modified {
                out.violate("model-rule/modified-count", format!("{implicit} implicit `modified` updates in one session (expected {want_implicit}); trail {trail:?}"), replay.clone());
                return;
            }
            final_map = s.expect.clone();
            out.count("sessions", 1);
        }
        // every recorded Update carries the value the property really had before
        let mut shadow = stored_map.clone();
        for op in &ops {
            match op {
                Operation::Update { uuid, property, old_value, value, .. } => {
                    if *uuid != u {
                        out.violate("ops/foreign-uuid", "an operation names another task".to_string(), replay.clone());
                        return;
                    }
                    if shadow.get(property) != old_value.as_ref() {
                        out.violate("ops/old-value", format!("Update of {property} records old value {:?} but the property held {:?}; trail {trail:?}", old_value.as_deref().map(model::trunc), shadow.get(property).map(|s| model::trunc(s))), replay.clone());
                        return;
                    }
                    match value {
                        Some(v) => {
                            shadow.insert(property.clone(), v.clone());
                        }
                        None => {
                            shadow.remove(property);
                        }
                    }
                    out.count("old_values_checked", 1);
                }
                // the harness' own idempotent TaskData::create for the (existing) task of this session
                Operation::Create { uuid } if low_level && *uuid == u => {}
                other => {
                    out.violate("ops/unexpected-kind", format!("mutators recorded {other:?}"), replay.clone());
                    return;
                }
            }
        }
        if shadow != final_map {
            out.violate("ops/replay-differs", "replaying the recorded operations does not give the task the caller holds".to_string(), replay.clone());
            return;
        }
        // commit -> reload == what the caller held
        if let Err(e) = block_on(r.rep.commit_operations(ops)) {
            out.violate("commit-error", format!("{e:#}"), replay.clone());
            return;
        }
        let reloaded = block_on(r.rep.get_task_data(u)).ok().flatten().map(|t| data_map(&t)).unwrap_or_default();
        if reloaded != final_map {
            out.violate("commit/stored-differs", format!("stored task differs from the task the caller held; trail {trail:?}"), replay.clone());
            return;
        }
        out.count("commit_reload_checks", 1);
        }
        // synthetic tags and dependency map vs independent computation (fresh map, fresh working set)
        let _ = block_on(r.rep.rebuild_working_set(false));
        let tasks: Tasks = block_on(model::replica_tasks(&mut r.rep)).unwrap_or_default();
        let ws: BTreeSet<Uuid> = block_on(r.rep.working_set()).map(|w| w.iter().map(|(_, u)| u).collect()).unwrap_or_default();
        // A commit through this replica discards its cached dependency map ("all local state on
        // the replica will be updated accordingly, including ... temporarily cached data"), so even
        // without forcing, what the replica serves now must reflect the stored data.
        {
            let cached = block_on(r.rep.dependency_map(false));
            let forced = block_on(r.rep.dependency_map(true));
            if let (Ok(c), Ok(f)) = (cached, forced) {
                for p in &peers {
                    let a: BTreeSet<Uuid> = c.dependencies(*p).collect();
                    let b2: BTreeSet<Uuid> = f.dependencies(*p).collect();
                    let a2: BTreeSet<Uuid> = c.dependents(*p).collect();
                    let b3: BTreeSet<Uuid> = f.dependents(*p).collect();
                    if a != b2 || a2 != b3 {
                        out.violate("depmap/stale-after-commit", format!("after a commit the replica still serves an old dependency map for {}: dependencies {a:?} vs {b2:?}, dependents {a2:?} vs {b3:?}; trail {trail:?}", model::su(*p)), replay.clone());
                        return;
                    }
                }
                out.count("cached_depmap_checks", 1);
            }
        }
        let dm = match block_on(r.rep.dependency_map(true)) {
            Ok(d) => d,
            Err(e) => {
                out.violate("depmap-error", format!("{e:#}"), replay.clone());
                return;
            }
        };
        let t_now0 = Utc::now().timestamp();
        for p in &peers {
            if !tasks.contains_key(p) {
                continue;
            }
            let Some(t) = block_on(r.rep.get_task(*p)).ok().flatten() else { continue };
            let t_now1 = Utc::now().timestamp();
            let want = synth_expect(*p, &tasks, &ws, t_now0);
            let want_late = synth_expect(*p, &tasks, &ws, t_now1);
            for (name, w) in &want {
                let tag = Tag::from_str(name).unwrap();
                let got = t.has_tag(&tag);
                if got != *w && got != want_late[name] {
                    out.violate(format!("synthetic-tag/{name}"), format!("task {} {:?}: has_tag({name})={got}, independent computation says {w}; trail {trail:?}", model::su(*p), tasks.get(p)), replay.clone());
                    return;
                }
                let listed = t.get_tags().any(|x| x.to_string() == *name);
                if listed != got {
                    out.violate("synthetic-tag/get_tags-vs-has_tag", format!("{name}: get_tags lists it = {listed}, has_tag = {got}"), replay.clone());
                    return;
                }
                out.count("synthetic_tags_checked", 1);
            }
            // user tags, annotations, dependencies, UDAs read back as written
            let tm = &tasks[p];
            let want_tags: BTreeSet<String> = tm.keys().filter_map(|k| k.strip_prefix("tag_")).filter(|x| Tag::from_str(x).map(|t| t.is_user()).unwrap_or(false)).map(|s| s.to_string()).collect();
            let got_tags: BTreeSet<String> = t.get_tags().filter(|x| x.is_user()).map(|x| x.to_string()).collect();
            if want_tags != got_tags {
                out.violate("readback/tags", format!("get_tags {got_tags:?} != stored {want_tags:?}"), replay.clone());
                return;
            }
            let want_ann: BTreeSet<(i64, String)> = tm.iter().filter_map(|(k, v)| k.strip_prefix("annotation_").and_then(|x| x.parse::<i64>().ok()).filter(|x| DateTime::from_timestamp(*x, 0).is_some()).map(|x| (x, v.clone()))).collect();
            let got_ann: BTreeSet<(i64, String)> = t.get_annotations().map(|a| (a.entry.timestamp(), a.description)).collect();
            if want_ann != got_ann {
                out.violate("readback/annotations", format!("get_annotations {got_ann:?} != stored {want_ann:?}"), replay.clone());
                return;
            }
            let want_deps: BTreeSet<Uuid> = tm.keys().filter_map(|k| k.strip_prefix("dep_").and_then(|d| Uuid::parse_str(d).ok())).collect();
            let got_deps: BTreeSet<Uuid> = t.get_dependencies().collect();
            if want_deps != got_deps {
                out.violate("readback/dependencies", format!("get_dependencies {got_deps:?} != stored {want_deps:?}"), replay.clone());
                return;
            }
            let want_udas: BTreeSet<(String, String)> = tm.iter().filter(|(k, _)| !is_reserved(k)).map(|(k, v)| (k.clone(), v.clone())).collect();
            let got_udas: BTreeSet<(String, String)> = t.get_user_defined_attributes().map(|(k, v)| (k.to_string(), v.to_string())).collect();
            if want_udas != got_udas {
                out.violate("readback/udas", format!("get_user_defined_attributes {:?} != stored {:?}", got_udas.len(), want_udas.len()), replay.clone());
                return;
            }
            // dependency map
            let got_d: BTreeSet<Uuid> = dm.dependencies(*p).collect();
            let want_d: BTreeSet<Uuid> = if ws.contains(p) { want_deps.iter().filter(|d| tasks.get(d).and_then(|x| x.get("status")).map(|s| s == "pending").unwrap_or(false)).copied().collect() } else { BTreeSet::new() };
            if got_d != want_d {
                out.violate("depmap/dependencies", format!("dependencies({}) = {got_d:?}, independent computation {want_d:?}", model::su(*p)), replay.clone());
                return;
            }
            let got_r: BTreeSet<Uuid> = dm.dependents(*p).collect();
            let want_r: BTreeSet<Uuid> = tasks.iter().filter(|(w, tmw)| ws.contains(w) && tmw.contains_key(&format!("dep_{p}")) && tm.get("status").map(|s| s == "pending").unwrap_or(false)).map(|(w, _)| *w).collect();
            if got_r != want_r {
                out.violate("depmap/dependents", format!("dependents({}) = {got_r:?}, independent computation {want_r:?}", model::su(*p)), replay.clone());
                return;
            }
            out.count("depmap_checks", 1);
        }
    }
    out.nontrivial = Some(fnv(format!("{trail:?}").as_bytes()));
    if i < 2 {
        out.sample = Some(json!({"trail": trail.iter().take(30).collect::<Vec<_>>()}));
    }
}

pub fn run(ctx: &Ctx) -> Outcome {
    let mut acc = Acc::default();
    let seed = ctx.seed;
    let only_idx = ctx.replay.as_ref().and_then(|r| r.get("index").and_then(|s| s.as_u64()));
    let (lo, hi) = match only_idx {
        Some(i) => (i, i + 1),
        None => (0, ctx.tier.pick(20_000, 300_000)),
    };
    run_cases(&mut acc, "mutators", hi - lo, |i| {
        let mut out = CaseOut::new();
        case(i + lo, seed, &mut out);
        out
    });
    if only_idx.is_none() {
        acc.require("mutator_calls", 10_000, "too few mutator calls");
        acc.require("reserved_names_rejected", 100, "too few rejected reserved names / synthetic tags");
        acc.require("old_values_checked", 10_000, "too few old values checked");
        acc.require("synthetic_tags_checked", 10_000, "too few synthetic tag checks");
    }
    Outcome {
        level: "exploration",
        rule: "seeded sequences of 1-25 calls over all public Task mutators (status, description, priority, entry/wait/due/modified, raw set_value, start/stop/done/delete, tags incl. synthetic and invalid, annotations, UDAs in all three API generations incl. reserved names, dependencies, set_timestamp) and TaskData::update, on 4 tasks in random prior states (hostile values, stale end/start/wait), 1-5 editing sessions per case with commit and reload between them; judged by the harness' documented-effect model, the old-value shadow map, the once-per-session modified rule, and independent synthetic-tag / dependency-map computations; distinct by call trail".into(),
        exhaustive: None,
        acc,
        assumptions: vec![
            "editing session = lifetime of one Task value".into(),
            "BLOCKED/BLOCKING/dependency map compared after dependency_map(true) and a non-renumbering rebuild; dependency targets always carry an explicit status".into(),
            "clock-derived values (end, start, implicit modified) must lie inside the wall-clock window of the call".into(),
        ],
        extra: Default::default(),
    }
}

//! C20 — expiration purges exactly the long-deleted tasks, everywhere (E1).
//!
//! Oracle: an independent predicate (status == "deleted" ∧ `modified` is a decimal integer that
//! fits i64 ∧ lies inside the calendar range ∧ is more than 180 days before now). The wall clock is
//! sampled before and after the call; tasks whose `modified` falls between the two cut-offs are
//! excluded from the assertion. The purge must show up as plain Delete operations (unsynced list
//! and wire), and after syncing in any order — with concurrent edits elsewhere — the task is gone
//! everywhere.

use serde_json::json;
use std::collections::{BTreeMap, BTreeSet};
use taskchampion::Operation;
use uuid::Uuid;

use crate::exec::block_on;
use crate::model::{self, MOp, Tasks};
use crate::props::c14::validate_segment;
use crate::report::{run_cases, Acc, CaseOut, Ctx, Outcome};
use crate::rng::{fnv, Rng};
use crate::srv::ChainRef;
use crate::world::*;

const DAY: i64 = 86_400;
const STATUSES: &[Option<&str>] = &[Some("pending"), Some("completed"), Some("deleted"), Some("recurring"), Some("weird"), None];

fn now() -> i64 {
    chrono::Utc::now().timestamp()
}

/// Independent reading of `modified`: Some(seconds) iff a decimal integer within i64 and within
/// the representable calendar range.
fn parse_modified(s: &str) -> Option<i64> {
    let (neg, digits) = match s.strip_prefix('-') {
        Some(d) => (true, d),
        None => (false, s.strip_prefix('+').unwrap_or(s)),
    };
    if digits.is_empty() || !digits.bytes().all(|b| b.is_ascii_digit()) {
        return None;
    }
    let mut v: i128 = 0;
    for b in digits.bytes() {
        v = v * 10 + (b - b'0') as i128;
        if v > (1i128 << 70) {
            return None;
        }
    }
    if neg {
        v = -v;
    }
    if v < i64::MIN as i128 || v > i64::MAX as i128 {
        return None;
    }
    // chrono's DateTime<Utc> range: years -262143 ..= 262142
    if !(-8_334_601_228_800..=8_210_266_876_799).contains(&v) {
        return None;
    }
    Some(v as i64)
}

fn modified_dictionary(n: i64) -> Vec<Option<String>> {
    let cut = n - 180 * DAY;
    let mut v: Vec<Option<String>> = vec![None];
    for x in [
        cut - 5 * DAY, cut - DAY, cut - 3600, cut - 5, cut + 5, cut + 3600, cut + DAY, n - 179 * DAY, n - 181 * DAY, n, n + DAY, n + 400 * DAY, 0, 1, -1, -5,
        1_000_000_000, 8_210_266_876_799, -8_334_601_228_800,
    ] {
        v.push(Some(x.to_string()));
    }
    for s in ["", "abc", "+5", " 5", "5 ", "1e9", "9223372036854775807", "-9223372036854775808", "9223372036854775808", "8210266876800", "-8334601228801", "1000000000.0", "٣", "0x10", "1_000"] {
        v.push(Some(s.to_string()));
    }
    v.push(Some(format!("+{}", cut - DAY)));
    v.push(Some(format!("{}", cut - 10 * 365 * DAY)));
    v
}

#[derive(Clone, Copy, PartialEq, Debug)]
enum Expect {
    Purge,
    Keep,
    Either,
}

fn expectation(t: &model::TaskM, cut_before: i64, cut_after: i64) -> Expect {
    if t.get("status").map(|s| s.as_str()) != Some("deleted") {
        return Expect::Keep;
    }
    let Some(m) = t.get("modified").and_then(|m| parse_modified(m)) else { return Expect::Keep };
    // expired iff m < cut (cut moved from cut_before to cut_after during the call)
    if m < cut_before {
        Expect::Purge
    } else if m >= cut_after {
        Expect::Keep
    } else {
        Expect::Either
    }
}

fn check_expire(r: &mut R, out: &mut CaseOut, replay: &serde_json::Value) -> Option<BTreeSet<Uuid>> {
    let before: Tasks = block_on(model::replica_tasks(&mut r.rep)).ok()?;
    let unsynced_before = r.ctl.last().unsynced;
    let t0 = now();
    if let Err(e) = block_on(r.rep.expire_tasks()) {
        out.violate("expire-error", format!("{e:#}"), replay.clone());
        return None;
    }
    let t1 = now();
    let after: Tasks = block_on(model::replica_tasks(&mut r.rep)).ok()?;
    let mut purged = BTreeSet::new();
    for (u, t) in &before {
        let e = expectation(t, t0 - 180 * DAY, t1 - 180 * DAY);
        let gone = !after.contains_key(u);
        out.count("tasks_judged", 1);
        match (e, gone) {
            (Expect::Purge, false) => {
                out.violate("kept-expired-task", format!("task {{status={:?}, modified={:?}}} should have been purged", t.get("status"), t.get("modified")), replay.clone());
                return None;
            }
            (Expect::Keep, true) => {
                out.violate("purged-live-task", format!("task {{status={:?}, modified={:?}}} must be kept but was purged", t.get("status"), t.get("modified")), replay.clone());
                return None;
            }
            (Expect::Either, _) => out.count("boundary_window_excluded", 1),
            _ => {}
        }
        if gone {
            purged.insert(*u);
            out.count("tasks_purged", 1);
        } else if after.get(u) != Some(t) {
            out.violate("kept-task-modified", "expire_tasks changed a task it kept".to_string(), replay.clone());
            return None;
        }
    }
    if after.keys().any(|u| !before.contains_key(u)) {
        out.violate("task-appeared", "expire_tasks created a task".to_string(), replay.clone());
        return None;
    }
    // recorded as ordinary deletions
    let unsynced_after = r.ctl.last().unsynced;
    let new_ops: Vec<&Operation> = if purged.is_empty() { vec![] } else { unsynced_after[unsynced_before.len().min(unsynced_after.len())..].iter().collect() };
    let deleted: BTreeSet<Uuid> = new_ops.iter().filter_map(|o| match o { Operation::Delete { uuid, .. } => Some(*uuid), _ => None }).collect();
    if deleted != purged || new_ops.iter().any(|o| !matches!(o, Operation::Delete { .. })) {
        out.violate("purge-not-recorded-as-deletes", format!("purged {} tasks but recorded operations {:?}", purged.len(), show_ops(&new_ops.into_iter().cloned().collect::<Vec<_>>())), replay.clone());
        return None;
    }
    Some(purged)
}

fn dictionary_case(i: u64, out: &mut CaseOut) {
    let replay = json!({"stratum": "dictionary", "index": i});
    let chain = ChainRef::new();
    let kind = if i % 2 == 1 { StoreKind::Sqlite } else { StoreKind::Mem };
    // other time-valued properties must not influence expiry: none / all long past / all recent
    let extras = (i / 4) % 3;
    let i = i % 4;
    let mut r = new_replica(0, kind, &chain);
    let dict = modified_dictionary(now());
    let mut abs = vec![];
    let mut n = 0u128;
    let mut combos = vec![];
    for st in STATUSES {
        for m in &dict {
            n += 1;
            let u = Uuid::from_u128(0xC20_0000 + n);
            abs.push(AbsOp::Create(u));
            if let Some(s) = st {
                abs.push(AbsOp::Set(u, "status".into(), s.to_string(), ts(1)));
            }
            if let Some(m) = m {
                abs.push(AbsOp::Set(u, "modified".into(), m.clone(), ts(1)));
            }
            if extras > 0 {
                let v = if extras == 1 { now() - 400 * DAY } else { now() - 60 };
                for k in ["end", "entry", "due", "wait", "start", "scheduled"] {
                    abs.push(AbsOp::Set(u, k.into(), v.to_string(), ts(1)));
                }
            }
            combos.push((st.map(|s| s.to_string()), m.clone()));
        }
    }
    let ops = concretise(&mut r.rep, &abs).unwrap_or_default();
    if block_on(r.rep.commit_operations(ops)).is_err() {
        out.inconclusive = Some("setup commit failed".into());
        return;
    }
    if i >= 2 {
        // same, but after the tasks have been synchronised
        let _ = sync(&mut r, &chain, false);
    }
    let Some(purged) = check_expire(&mut r, out, &replay) else { return };
    out.count("dictionary_combinations", combos.len() as u64);
    out.nontrivial = Some(i + 1 + 4 * extras);
    out.sample = Some(json!({"combinations": combos.len(), "purged": purged.len(), "examples": combos.iter().step_by(37).take(5).collect::<Vec<_>>()}));
}

fn history_case(i: u64, seed: u64, out: &mut CaseOut) {
    let mut rng = Rng::derive(seed, "c20-hist", i);
    let replay = json!({"stratum": "history", "index": i});
    let chain = ChainRef::new();
    let n_rep = 2 + rng.below(2);
    let mut reps: Vec<R> = (0..n_rep).map(|k| new_replica(k, if rng.chance(1, 10) { StoreKind::Sqlite } else { StoreKind::Mem }, &chain)).collect();
    let dict = modified_dictionary(now());
    let tasks: Vec<Uuid> = (0..(2 + rng.below(5))).map(|_| rng.uuid()).collect();
    // replica 0 creates the tasks; everybody syncs
    let mut abs = vec![];
    for u in &tasks {
        abs.push(AbsOp::Create(*u));
        let st = if rng.chance(3, 5) { Some("deleted") } else { *rng.pick(STATUSES) };
        if let Some(s) = st {
            abs.push(AbsOp::Set(*u, "status".into(), s.into(), ts(1)));
        }
        let m = if rng.chance(1, 2) { Some((now() - (181 + rng.below(2000) as i64) * DAY).to_string()) } else { rng.pick(&dict).clone() };
        if let Some(m) = m {
            abs.push(AbsOp::Set(*u, "modified".into(), m, ts(1)));
        }
        abs.push(AbsOp::Set(*u, "description".into(), "d".into(), ts(1)));
    }
    let ops = concretise(&mut reps[0].rep, &abs).unwrap_or_default();
    if block_on(reps[0].rep.commit_operations(ops)).is_err() {
        out.inconclusive = Some("setup commit failed".into());
        return;
    }
    if let Err(e) = quiesce(&mut reps, &chain, 6) {
        out.violate("quiescence", e, replay.clone());
        return;
    }
    // concurrent edits on the other replicas (not yet synced)
    let mut edited: BTreeMap<usize, Vec<Uuid>> = BTreeMap::new();
    for k in 1..n_rep {
        for u in &tasks {
            if rng.chance(1, 2) {
                let abs = match rng.below(4) {
                    0 => vec![AbsOp::Set(*u, "status".into(), "pending".into(), ts(rng.range(50, 99)))],
                    1 => vec![AbsOp::Set(*u, "modified".into(), now().to_string(), ts(rng.range(50, 99)))],
                    2 => vec![AbsOp::Remove(*u, "description".into(), ts(rng.range(50, 99)))],
                    _ => vec![AbsOp::Set(*u, "description".into(), format!("edit-{k}"), ts(rng.range(50, 99)))],
                };
                let ops = concretise(&mut reps[k].rep, &abs).unwrap_or_default();
                let _ = block_on(reps[k].rep.commit_operations(ops));
                edited.entry(k).or_default().push(*u);
            }
        }
    }
    // expiry on one or two replicas
    let mut purged_all = BTreeSet::new();
    let expirers = if rng.chance(1, 4) { vec![0usize, 1] } else { vec![0usize] };
    for k in &expirers {
        if edited.contains_key(k) {
            // this replica has edited tasks itself: its own view decides
        }
        let Some(p) = check_expire(&mut reps[*k], out, &replay) else { return };
        purged_all.extend(p);
    }
    let concurrent = purged_all.iter().filter(|u| edited.values().any(|v| v.contains(u))).count();
    // sync in a random order until quiescence
    let mut order: Vec<usize> = (0..n_rep).collect();
    rng.shuffle(&mut order);
    let v0 = chain.0.borrow().versions.len();
    for k in &order {
        if let Err(e) = sync(&mut reps[*k], &chain, false) {
            out.violate("sync-error", format!("{e:#}"), replay.clone());
            return;
        }
    }
    if let Err(e) = quiesce(&mut reps, &chain, 8) {
        out.violate("quiescence", e, replay.clone());
        return;
    }
    // wire: the purge travelled as plain Delete operations in valid segments
    let mut wire_deletes = BTreeSet::new();
    for v in &chain.0.borrow().versions[v0..] {
        match validate_segment(&v.bytes) {
            Ok(ops) => {
                for o in ops {
                    if let MOp::Delete(u) = o {
                        wire_deletes.insert(u);
                    }
                }
            }
            Err(e) => {
                out.violate("wire-format", e, replay.clone());
                return;
            }
        }
    }
    for u in &purged_all {
        if !wire_deletes.contains(u) {
            out.violate("purge-not-on-wire", format!("purged task {} never appeared as a Delete on the wire", model::su(*u)), replay.clone());
            return;
        }
    }
    for r in reps.iter_mut() {
        let t = block_on(model::replica_tasks(&mut r.rep)).unwrap_or_default();
        for u in &purged_all {
            if t.contains_key(u) {
                out.violate("purged-task-came-back", format!("after sync (order {order:?}) the purged task {} exists on replica {} as {:?}; concurrently edited: {}", model::su(*u), r.id, t.get(u), edited.values().any(|v| v.contains(u))), replay.clone());
                return;
            }
        }
    }
    if let Err(e) = check_converged(&mut reps, &chain) {
        out.violate("diverged-at-quiescence", e, replay.clone());
        return;
    }
    out.count("purged_with_concurrent_edit", concurrent as u64);
    out.count("histories_checked", 1);
    if concurrent > 0 {
        out.nontrivial = Some(fnv(format!("{i}").as_bytes()));
    }
    if i < 2 {
        out.sample = Some(json!({"replicas": n_rep, "tasks": tasks.len(), "purged": purged_all.len(), "purged_with_concurrent_edit": concurrent, "sync_order": order}));
    }
}

/// A replica expires *every* task it holds while the server keeps a snapshot taken before the purge
/// and another replica has edited one of the tasks: the purged tasks must stay gone everywhere —
/// in particular the now task-less replica must not take the old snapshot back in.
fn purge_all_case(i: u64, seed: u64, out: &mut CaseOut) {
    let mut rng = Rng::derive(seed, "c20-purge-all", i);
    let replay = json!({"stratum": "purge-all", "index": i});
    let chain = ChainRef::new();
    let kind = if rng.chance(1, 4) { StoreKind::Sqlite } else { StoreKind::Mem };
    let mut reps: Vec<R> = vec![new_replica(0, kind, &chain), new_replica(1, StoreKind::Mem, &chain)];
    let tasks: Vec<Uuid> = (0..(1 + rng.below(4))).map(|_| rng.uuid()).collect();
    let mut abs = vec![];
    for u in &tasks {
        abs.push(AbsOp::Set(*u, "status".into(), "deleted".into(), ts(1)));
        abs.push(AbsOp::Set(*u, "modified".into(), (now() - (200 + rng.below(1000) as i64) * DAY).to_string(), ts(1)));
        abs.push(AbsOp::Set(*u, "description".into(), "old".into(), ts(1)));
    }
    let ops = concretise(&mut reps[0].rep, &abs).unwrap_or_default();
    if block_on(reps[0].rep.commit_operations(ops)).is_err() {
        out.inconclusive = Some("setup commit failed".into());
        return;
    }
    // the server asks for a snapshot, so one exists from before the purge
    chain.0.borrow_mut().urgency_default = taskchampion::server::SnapshotUrgency::High;
    if let Err(e) = quiesce(&mut reps, &chain, 6) {
        out.violate("quiescence".to_string(), e, replay);
        return;
    }
    chain.0.borrow_mut().urgency_default = taskchampion::server::SnapshotUrgency::None;
    if chain.0.borrow().snapshots.is_empty() {
        out.inconclusive = Some("no snapshot was uploaded".into());
        return;
    }
    // a concurrent edit elsewhere
    if rng.chance(2, 3) {
        let u = *rng.pick(&tasks);
        let ops = concretise(&mut reps[1].rep, &[AbsOp::Set(u, "status".into(), "pending".into(), ts(60)), AbsOp::Set(u, "modified".into(), now().to_string(), ts(60))]).unwrap_or_default();
        let _ = block_on(reps[1].rep.commit_operations(ops));
    }
    let Some(purged) = check_expire(&mut reps[0], out, &replay) else { return };
    if purged.len() != tasks.len() {
        out.inconclusive = Some("not every task was purged".into());
        return;
    }
    let order: Vec<usize> = if rng.chance(1, 2) { vec![0, 1] } else { vec![1, 0] };
    for k in &order {
        if let Err(e) = sync(&mut reps[*k], &chain, false) {
            out.violate("sync-error".to_string(), format!("{e:#}"), replay);
            return;
        }
    }
    if let Err(e) = quiesce(&mut reps, &chain, 8) {
        out.violate("quiescence".to_string(), e, replay);
        return;
    }
    for r in reps.iter_mut() {
        let t = block_on(model::replica_tasks(&mut r.rep)).unwrap_or_default();
        for u in &purged {
            if t.contains_key(u) {
                out.violate("purged-task-came-back/after-purging-everything".to_string(), format!("sync order {order:?}: task {} is back on replica {} as {:?} (the server held a snapshot from before the purge)", model::su(*u), r.id, t.get(u)), replay);
                return;
            }
        }
    }
    if let Err(e) = check_converged(&mut reps, &chain) {
        out.violate("diverged-at-quiescence".to_string(), e, replay);
        return;
    }
    out.count("purge_everything_cases", 1);
    out.nontrivial = Some(fnv(format!("purge-all{i}").as_bytes()));
}

pub fn run(ctx: &Ctx) -> Outcome {
    let mut acc = Acc::default();
    let seed = ctx.seed;
    let only = ctx.replay.as_ref().and_then(|r| r.get("stratum").and_then(|s| s.as_str()).map(|s| s.to_string()));
    let only_idx = ctx.replay.as_ref().and_then(|r| r.get("index").and_then(|s| s.as_u64()));
    let want = |s: &str| only.as_deref().map(|o| o == s).unwrap_or(true);
    let range = |n: u64| -> (u64, u64) { match only_idx { Some(i) => (i, i + 1), None => (0, n) } };
    if want("dictionary") {
        let (lo, hi) = range(12);
        run_cases(&mut acc, "dictionary", hi - lo, |i| {
            let mut out = CaseOut::new();
            dictionary_case(i + lo, &mut out);
            out
        });
        if only.is_none() && !acc.truncated {
            acc.exhaustive_parts.push("dictionary: every status (5 + missing) x every `modified` value of the boundary dictionary (~37), on both storages, before and after a sync".into());
        }
    }
    if want("history") {
        let (lo, hi) = range(ctx.tier.pick(4000, 60_000));
        run_cases(&mut acc, "history", hi - lo, |i| {
            let mut out = CaseOut::new();
            history_case(i + lo, seed, &mut out);
            out
        });
    }
    if want("purge-all") {
        let (lo, hi) = range(ctx.tier.pick(800, 10_000));
        run_cases(&mut acc, "purge-all", hi - lo, |i| {
            let mut out = CaseOut::new();
            purge_all_case(i + lo, seed, &mut out);
            out
        });
    }
    if only.is_none() {
        acc.require("purge_everything_cases", 20, "too few cases in which a replica purged everything it held");
        acc.require("tasks_purged", 50, "too few purged tasks");
        acc.require("purged_with_concurrent_edit", 50, "too few purges with a concurrent edit elsewhere");
    }
    Outcome {
        level: "exploration",
        rule: "dictionary: every status x every boundary `modified` value (cut-off ±5 s / ±1 h / ±1 d, future, missing, empty, non-numeric, signed, overflow, out-of-calendar), both storages, before/after sync, judged by the independent predicate; histories: 2-3 replicas share tasks, others edit them concurrently (status back to pending, modified refreshed, description changed/removed), one or two replicas expire, random sync order to quiescence, purge must travel as Delete operations and the task must be gone everywhere; purge-all: a replica purges every task it holds while the server keeps a pre-purge snapshot; non-trivial = a purged task had a concurrent edit; distinct by case".into(),
        exhaustive: None,
        acc,
        assumptions: vec![
            "no hook on the clock: tasks whose `modified` lies between (t_before-180d) and (t_after-180d) are excluded; boundary cases sit ±5 s outside".into(),
            "`modified` is read as an optionally signed decimal integer (the data model's integer timestamps)".into(),
        ],
        extra: Default::default(),
    }
}

//! C07 — undo restores the exact prior state and withdraws the changes from sync (E1).
//!
//! The harness keeps, for the replica under test, the expected unsynced operation list and the
//! model state after every prefix of it (on top of the state at the last sync). After each undo it
//! compares tasks, unsynced list and counters with the snapshot at the undo point; stale lists must
//! be refused without any change; after a sync nothing can be undone; and what the replica later
//! sends to the server must be exactly the surviving operations.

use serde_json::json;
use taskchampion::{Operation, Operations};
use uuid::Uuid;

use crate::exec::block_on;
use crate::model::{self, MOp, Tasks};
use crate::report::{run_cases, Acc, CaseOut, Ctx, Outcome};
use crate::rng::{fnv, Rng};
use crate::srv::ChainRef;
use crate::world::*;

struct Shadow {
    base: Tasks,
    log: Vec<Operation>,
    /// states[j] = base ⊕ log[..j]
    states: Vec<Tasks>,
}

impl Shadow {
    fn new(base: Tasks) -> Shadow {
        Shadow { states: vec![base.clone()], base, log: vec![] }
    }
    fn push(&mut self, ops: &[Operation]) {
        for o in ops {
            let mut t = self.states.last().unwrap().clone();
            if let Some(m) = model::from_operation(o) {
                model::apply(&mut t, &m);
            }
            self.states.push(t);
            self.log.push(o.clone());
        }
    }
    fn cur(&self) -> &Tasks {
        self.states.last().unwrap()
    }
    fn undo_span(&self) -> usize {
        match self.log.iter().rposition(|o| o.is_undo_point()) {
            Some(i) => self.log.len() - i,
            None => self.log.len(),
        }
    }
    fn truncate(&mut self, k: usize) {
        let n = self.log.len() - k;
        self.log.truncate(n);
        self.states.truncate(n + 1);
    }
}

fn compare(r: &mut R, sh: &Shadow, what: &str) -> Result<(), (String, String)> {
    let got = block_on(model::replica_tasks(&mut r.rep)).map_err(|e| ("read".to_string(), e))?;
    if &got != sh.cur() {
        return Err((format!("{what}/tasks"), format!("tasks differ from the state at the undo point: {}", model::diff_tasks(&got, sh.cur()))));
    }
    let d = r.ctl.last();
    if d.unsynced != sh.log {
        return Err((format!("{what}/unsynced-list"), format!("unsynced list {:?} != expected {:?}", show_ops(&d.unsynced), show_ops(&sh.log))));
    }
    let n_ops = block_on(r.rep.num_local_operations()).unwrap_or(usize::MAX);
    let n_undo = block_on(r.rep.num_undo_points()).unwrap_or(usize::MAX);
    if n_ops != sh.log.iter().filter(|o| !o.is_undo_point()).count() || n_undo != sh.log.iter().filter(|o| o.is_undo_point()).count() {
        return Err((format!("{what}/counters"), format!("num_local_operations={n_ops} num_undo_points={n_undo} for expected log {:?}", show_ops(&sh.log))));
    }
    Ok(())
}

fn case(i: u64, seed: u64, out: &mut CaseOut) {
    let mut rng = Rng::derive(seed, "c07", i);
    let chain = ChainRef::new();
    let replay = json!({"stratum": "undo", "index": i});
    let kind = if rng.chance(1, 8) { StoreKind::Sqlite } else { StoreKind::Mem };
    let mut r = new_replica(0, kind, &chain);
    let mut other = new_replica(1, StoreKind::Mem, &chain);
    let mine: Vec<Uuid> = (0..3).map(|_| rng.uuid()).collect();
    let theirs: Vec<Uuid> = (0..2).map(|_| rng.uuid()).collect();
    let mut sh = Shadow::new(Tasks::new());
    let mut counter = 0u64;
    let mut trail: Vec<String> = vec![];
    let mut rich_undo = false;
    let steps = 6 + rng.below(20);
    for _step in 0..steps {
        match rng.below(100) {
            0..=49 => {
                // commit a valid batch, usually starting with an undo point
                let mut abs = vec![];
                if rng.chance(3, 4) {
                    abs.push(AbsOp::UndoPoint);
                }
                for _ in 0..(1 + rng.below(5)) {
                    let u = *rng.pick(&mine);
                    counter += 1;
                    abs.push(match rng.below(10) {
                        0 => AbsOp::Create(u),
                        1 | 2 => AbsOp::Delete(u),
                        3 | 4 => AbsOp::Remove(u, format!("p{}", rng.below(3)), ts(rng.range(0, 5))),
                        _ => AbsOp::Set(u, format!("p{}", rng.below(3)), format!("r0-{counter}"), ts(rng.range(0, 5))),
                    });
                    if rng.chance(1, 10) {
                        abs.push(AbsOp::UndoPoint);
                    }
                }
                let ops = match concretise(&mut r.rep, &abs) {
                    Ok(o) => o,
                    Err(e) => {
                        out.inconclusive = Some(e);
                        return;
                    }
                };
                trail.push(format!("commit {:?}", show_ops(&ops)));
                sh.push(&ops);
                if let Err(e) = block_on(r.rep.commit_operations(ops)) {
                    out.violate("commit-error", format!("{e:#}"), replay.clone());
                    return;
                }
                if let Err((s, m)) = compare(&mut r, &sh, "after-commit") {
                    out.violate(s, format!("{m}; trail {trail:?}"), replay.clone());
                    return;
                }
            }
            50..=74 => {
                // undo
                let span = sh.undo_span();
                let ops = match block_on(r.rep.get_undo_operations()) {
                    Ok(o) => o,
                    Err(e) => {
                        out.violate("undo/get-error", format!("{e:#}"), replay.clone());
                        return;
                    }
                };
                let expect_ops: Vec<Operation> = sh.log[sh.log.len() - span..].to_vec();
                if ops != expect_ops {
                    out.violate("undo/list", format!("get_undo_operations {:?} != expected {:?}", show_ops(&ops), show_ops(&expect_ops)), replay.clone());
                    return;
                }
                let real = expect_ops.iter().any(|o| !o.is_undo_point());
                let rich = expect_ops.iter().any(|o| match o {
                    Operation::Delete { old_task, .. } => !old_task.is_empty(),
                    Operation::Update { value: None, old_value: Some(_), .. } => true,
                    _ => false,
                });
                trail.push(format!("undo {:?}", show_ops(&ops)));
                let before = r.ctl.last();
                let res = block_on(r.rep.commit_reversed_operations(ops.clone()));
                out.count("undos", 1);
                match res {
                    Err(e) => {
                        out.violate("undo/error", format!("commit_reversed_operations failed on a valid sequence: {e:#}; trail {trail:?}"), replay.clone());
                        return;
                    }
                    Ok(flag) => {
                        if ops.is_empty() {
                            if flag || r.ctl.last() != before {
                                out.violate("undo/empty-list", "empty undo list reported success or changed something", replay.clone());
                                return;
                            }
                        } else {
                            sh.truncate(span);
                            if real && !flag {
                                out.violate("undo/reported-failure", format!("undo of {:?} applied nothing / reported false; trail {trail:?}", show_ops(&ops)), replay.clone());
                                return;
                            }
                            if let Err((s, m)) = compare(&mut r, &sh, "after-undo") {
                                out.violate(s, format!("{m}; trail {trail:?}"), replay.clone());
                                return;
                            }
                            if real {
                                out.count("undos_applied", 1);
                            }
                            if rich {
                                out.count("undos_restoring_deleted_content", 1);
                                rich_undo = true;
                            }
                        }
                    }
                }
            }
            75..=84 => {
                // stale list: fetch, commit one more change, submit the old list
                let stale = block_on(r.rep.get_undo_operations()).unwrap_or_default();
                counter += 1;
                let abs = vec![AbsOp::Set(*rng.pick(&mine), "stale".into(), format!("r0-{counter}"), ts(9))];
                let ops = concretise(&mut r.rep, &abs).unwrap_or_default();
                sh.push(&ops);
                if block_on(r.rep.commit_operations(ops)).is_err() {
                    out.inconclusive = Some("commit failed".into());
                    return;
                }
                let before = r.ctl.last();
                let tasks_before = block_on(model::replica_tasks(&mut r.rep)).unwrap_or_default();
                trail.push(format!("stale-undo {:?}", show_ops(&stale)));
                match block_on(r.rep.commit_reversed_operations(stale.clone())) {
                    Err(e) => {
                        out.violate("stale/error", format!("{e:#}"), replay.clone());
                        return;
                    }
                    Ok(flag) => {
                        let tasks_after = block_on(model::replica_tasks(&mut r.rep)).unwrap_or_default();
                        if flag || r.ctl.last() != before || tasks_after != tasks_before {
                            out.violate("stale/accepted", format!("a stale undo list {:?} was accepted (flag {flag}) or changed data; trail {trail:?}", show_ops(&stale)), replay.clone());
                            return;
                        }
                        out.count("stale_lists_refused", 1);
                    }
                }
            }
            85..=92 => {
                // the other replica edits its own tasks and syncs
                let u = *rng.pick(&theirs);
                counter += 1;
                let abs = vec![AbsOp::Set(u, "q".into(), format!("r1-{counter}"), ts(3))];
                let ops = concretise(&mut other.rep, &abs).unwrap_or_default();
                let _ = block_on(other.rep.commit_operations(ops));
                if let Err(e) = sync(&mut other, &chain, false) {
                    out.violate("sync-error", format!("{e:#}"), replay.clone());
                    return;
                }
            }
            _ => {
                // sync: afterwards nothing can be undone, and exactly the surviving operations were sent
                let pre = block_on(r.rep.get_undo_operations()).unwrap_or_default();
                let v0 = chain.0.borrow().versions.len();
                trail.push("sync".into());
                if let Err(e) = sync(&mut r, &chain, false) {
                    out.violate("sync-error", format!("{e:#}"), replay.clone());
                    return;
                }
                let sent: Vec<MOp> = {
                    let c = chain.0.borrow();
                    c.versions[v0..].iter().filter(|v| v.client == 0).flat_map(|v| model::parse_version(&v.bytes).unwrap_or_default()).collect()
                };
                let want: Vec<MOp> = mops_of(&sh.log);
                if sent != want {
                    out.violate("withdrawn/sent-differs", format!("operations sent {:?} != surviving operations {:?}; trail {trail:?}", sent.iter().map(|o| o.short()).collect::<Vec<_>>(), want.iter().map(|o| o.short()).collect::<Vec<_>>()), replay.clone());
                    return;
                }
                out.count("syncs_compared", 1);
                let base = block_on(model::replica_tasks(&mut r.rep)).unwrap_or_default();
                sh = Shadow::new(base);
                let after = block_on(r.rep.get_undo_operations()).unwrap_or_default();
                if !after.is_empty() {
                    out.violate("after-sync/undo-list-not-empty", format!("{:?}", show_ops(&after)), replay.clone());
                    return;
                }
                if !pre.is_empty() {
                    let before = r.ctl.last();
                    match block_on(r.rep.commit_reversed_operations(pre.clone())) {
                        Ok(false) if r.ctl.last() == before => out.count("synced_changes_not_undoable", 1),
                        other => {
                            out.violate("after-sync/undone", format!("synchronized changes were undone or the call misbehaved: {:?}", other.map_err(|e| e.to_string())), replay.clone());
                            return;
                        }
                    }
                }
            }
        }
    }
    // repeated undo down to the last sync
    let mut guard = 0;
    while !sh.log.is_empty() && guard < 200 {
        guard += 1;
        let span = sh.undo_span();
        let ops = block_on(r.rep.get_undo_operations()).unwrap_or_default();
        let real = ops.iter().any(|o| !o.is_undo_point());
        match block_on(r.rep.commit_reversed_operations(ops.clone())) {
            Ok(flag) => {
                sh.truncate(span);
                if real && !flag {
                    out.violate("undo/reported-failure", format!("repeated undo of {:?} reported false", show_ops(&ops)), replay.clone());
                    return;
                }
            }
            Err(e) => {
                out.violate("undo/error", format!("{e:#}"), replay.clone());
                return;
            }
        }
        if let Err((s, m)) = compare(&mut r, &sh, "repeated-undo") {
            out.violate(s, format!("{m}; trail {trail:?}"), replay.clone());
            return;
        }
        out.count("undos", 1);
    }
    if sh.cur() != &sh.base {
        out.violate("repeated-undo/not-back-at-sync-state", "after undoing everything the tasks differ from the last synced state", replay.clone());
        return;
    }
    // and a final sync sends nothing
    let v0 = chain.0.borrow().versions.len();
    if let Err(e) = sync(&mut r, &chain, false) {
        out.violate("sync-error", format!("{e:#}"), replay.clone());
        return;
    }
    if chain.0.borrow().versions[v0..].iter().any(|v| v.client == 0) {
        out.violate("withdrawn/sent-after-full-undo", "a version was sent although every local change had been undone", replay.clone());
        return;
    }
    if rich_undo {
        out.nontrivial = Some(fnv(format!("{trail:?}").as_bytes()));
    }
    if i < 2 {
        out.sample = Some(json!({"trail": trail.iter().map(|s| model::trunc(s)).collect::<Vec<_>>()}));
    }
}

pub fn run(ctx: &Ctx) -> Outcome {
    let mut acc = Acc::default();
    let seed = ctx.seed;
    let only_idx = ctx.replay.as_ref().and_then(|r| r.get("index").and_then(|s| s.as_u64()));
    let (lo, hi) = match only_idx {
        Some(i) => (i, i + 1),
        None => (0, ctx.tier.pick(12_000, 150_000)),
    };
    run_cases(&mut acc, "undo", hi - lo, |i| {
        let mut out = CaseOut::new();
        case(i + lo, seed, &mut out);
        out
    });
    if only_idx.is_none() {
        acc.require("undos_applied", 100, "too few undos applied");
        acc.require("undos_restoring_deleted_content", 20, "too few undos restoring deleted tasks / removed properties");
        acc.require("stale_lists_refused", 20, "too few stale-list submissions");
        acc.require("synced_changes_not_undoable", 20, "too few post-sync undo attempts");
    }
    Outcome {
        level: "exploration",
        rule: "seeded histories on one replica (in-memory, 1/8 SQLite) of valid batches with undo points, undo, stale-list submissions, syncs (with a second replica editing disjoint tasks), then repeated undo down to the last sync; after every step tasks, the unsynced list and the counters are compared with the harness' per-prefix model states; versions sent are compared with the surviving operations; non-trivial = an undo restored a populated deleted task or a removed property; distinct by trail".into(),
        exhaustive: None,
        acc,
        assumptions: vec![
            "valid sequences only (built through the replica's current state), as the property states".into(),
            "an undo whose span holds only an undo point may report false; only 'no task changed' is asserted there".into(),
        ],
        extra: Default::default(),
    }
}

//! C09 — the object-store server keeps one version chain under concurrent clients (engine E2).
//!
//! 2–4 clients (adders with retry, chain-walking readers, snapshot writers) run against one
//! in-memory object store; every single get / put / del / compare-and-swap request and every list
//! page parks at a gate and the scheduler decides who proceeds (DFS-exhaustive for two adders,
//! seeded random otherwise). The automatic cleanup draw is pinned to 255 (no cleanup, urgency
//! None), so that cleanup races are judged by C10 alone. Offline history checker over the client
//! call/return events and the store's request log.

use serde_json::json;
use std::collections::{BTreeMap, BTreeSet};
use std::future::Future;
use std::pin::Pin;
use std::sync::{Arc, Mutex};
use taskchampion::server::verif::set_random_source;
use uuid::Uuid;

use crate::cloud::*;
use crate::exec::{block_on, run_sched, DecisionSource, DfsSource, Gates, RandomSource, ReplaySource};
use crate::report::{run_cases, Acc, CaseOut, Ctx, Outcome};
use crate::rng::{fnv, Rng};

#[derive(Clone, Debug)]
pub enum Role {
    Adder { payloads: usize },
    Reader { walks: usize },
    Snapshotter,
}

pub struct Scenario {
    pub prior_versions: usize,
    pub roles: Vec<Role>,
    pub page_size: usize,
}

pub struct RunInfo {
    pub trace_hash: u64,
    pub lost_cas: u64,
    pub multi_candidate_reads: u64,
    pub steps: usize,
}

fn payload(client: usize, n: usize) -> Vec<u8> {
    // real version JSON with a unique marker, so that replicas could consume it
    format!("{{\"operations\":[{{\"Create\":{{\"uuid\":\"{}\"}}}}]}}", Uuid::from_u128(((client as u128) << 64) + n as u128 + 1)).into_bytes()
}

pub fn run_schedule(tag: &str, index: u64, sc: &Scenario, source: &mut dyn DecisionSource, out: &mut CaseOut, extra: serde_json::Value) -> Option<RunInfo> {
    set_random_source(Some(Box::new(|| Some(255))));
    let world = World::new();
    let mut replay = json!({"stratum": tag, "index": index, "prior_versions": sc.prior_versions, "roles": format!("{:?}", sc.roles), "page_size": sc.page_size, "extra": extra});
    // sequential prior chain
    let mut submitted: BTreeMap<Uuid, Vec<u8>> = BTreeMap::new();
    {
        let mut h = world.plain(900);
        let mut base = Uuid::nil();
        for n in 0..sc.prior_versions {
            let p = payload(900, n);
            match block_on(taskchampion::Server::add_version(&mut h, base, p.clone())) {
                Ok((taskchampion::server::AddVersionResult::Ok(v), _)) => {
                    submitted.insert(v, p);
                    base = v;
                }
                other => {
                    out.violate("prior-add-failed".to_string(), format!("{:?}", other.map(|x| x.0)), replay);
                    return None;
                }
            }
        }
    }
    let initial_latest = world.latest();
    let log0 = world.store.log_len();
    let n = sc.roles.len();
    let gates = Gates::new(n);
    let evlog: EvLog = Arc::new(Mutex::new(vec![]));
    let mut futs: Vec<Option<Pin<Box<dyn Future<Output = usize>>>>> = vec![];
    for (c, role) in sc.roles.iter().enumerate() {
        let h = world.gated(c, &gates, sc.page_size);
        let f: Pin<Box<dyn Future<Output = usize>>> = match role {
            Role::Adder { payloads } => {
                let ps = (0..*payloads).map(|k| payload(c, k)).collect();
                // every adder starts from the prior chain head it already knows
                Box::pin(script_adder(h, world.store.clone(), evlog.clone(), c, initial_latest.unwrap_or(Uuid::nil()), ps, 6))
            }
            Role::Reader { walks } => Box::pin(script_reader(h, evlog.clone(), c, *walks)),
            Role::Snapshotter => Box::pin(script_snapshot(h, evlog.clone(), c, initial_latest.unwrap_or(Uuid::nil()), format!("snapshot-by-{c}").into_bytes())),
        };
        futs.push(Some(f));
    }
    let o = run_sched(&gates, futs, source, 5000);
    set_random_source(None);
    if o.watchdog {
        out.inconclusive = Some("scheduler watchdog".into());
        return None;
    }
    replay["schedule"] = json!(o.trace.iter().map(|t| t.0).collect::<Vec<_>>());
    replay["requests"] = json!(o.trace.iter().map(|t| format!("{}:{}", t.0, t.1)).collect::<Vec<_>>());
    // ---- offline history check ----
    let events = evlog.lock().unwrap().clone();
    let store_log = world.store.log();
    let chain = match world.walk(Uuid::nil()) {
        Ok(c) => c,
        Err(e) => {
            out.violate("final-chain-unwalkable".to_string(), e, replay);
            return None;
        }
    };
    let on_chain: BTreeMap<Uuid, (Uuid, Vec<u8>)> = chain.iter().map(|(v, p, b)| (*v, (*p, b.clone()))).collect();
    // final latest is the chain tail
    if world.latest() != chain.last().map(|c| c.0) && !(world.latest().is_none() && chain.is_empty()) {
        out.violate("latest-not-chain-tail".to_string(), format!("'latest' = {:?} but the chain walked from nil ends at {:?}", world.latest(), chain.last().map(|c| c.0)), replay);
        return None;
    }
    let mut accepted_parents: BTreeSet<Uuid> = chain.iter().take(sc.prior_versions).map(|c| c.1).collect();
    let mut lost_cas = 0u64;
    // per client: the parent of its last add_version that was rejected (cleared by a later accepted add)
    let mut last_rejected: BTreeMap<usize, (Uuid, Uuid)> = BTreeMap::new();
    for (ev_idx, ev) in events.iter().enumerate() {
        match ev {
            CEv::AddCall { client, parent, .. } => {
                // A rejection names a 'latest' other than the given parent; the parent is on the chain
                // (adders start from the head they know and only advance along served versions), so it
                // has a child, which must be retrievable: a client that pulls again after the rejection
                // and comes back with the same parent was told about a version it cannot reach — for a
                // replica that is the out-of-sync error.
                if let Some((p0, named)) = last_rejected.get(client) {
                    if p0 == parent && on_chain.contains_key(named) {
                        out.violate("rejected-parent-without-retrievable-child".to_string(), format!("client {client}: add_version({parent}) was rejected naming {named}, the client pulled again and found no child of {parent}"), replay);
                        return None;
                    }
                }
            }
            CEv::AddRet { client, parent, bytes, result, log_at } => match result {
                Ok(AddVersionResult2::Ok(v)) => {
                    last_rejected.remove(client);
                    submitted.insert(*v, bytes.clone());
                    if !accepted_parents.insert(*parent) {
                        out.violate("two-accepted-children".to_string(), format!("client {client}: version {v} accepted for parent {parent}, which already has an accepted child"), replay);
                        return None;
                    }
                    match on_chain.get(v) {
                        None => {
                            out.violate("accepted-version-not-on-chain".to_string(), format!("client {client} was told {v} was accepted, but it is not on the chain reachable from 'latest'"), replay);
                            return None;
                        }
                        Some((p, b)) => {
                            if p != parent || b != bytes {
                                out.violate("accepted-version-altered".to_string(), format!("version {v} is on the chain with a different parent or bytes than submitted"), replay);
                                return None;
                            }
                        }
                    }
                    out.count("accepted_adds", 1);
                }
                Ok(AddVersionResult2::Expected(x)) => {
                    out.count("rejected_adds", 1);
                    last_rejected.insert(*client, (*parent, *x));
                    // the matching call event (the latest one before this return) gives the interval
                    let from = events[..ev_idx].iter().rev().find_map(|e| match e { CEv::AddCall { client: c2, parent: p2, bytes: b2, log_at } if c2 == client && p2 == parent && b2 == bytes => Some(*log_at), _ => None }).unwrap_or(log0);
                    let lat = latest_during(&store_log, from, *log_at, initial_latest);
                    let named = if x.is_nil() { None } else { Some(*x) };
                    if !lat.contains(&named) {
                        out.violate("rejection-names-never-latest".to_string(), format!("client {client}: rejection names {x}, which was never 'latest' during the call (values seen: {lat:?})"), replay);
                        return None;
                    }
                    if lat.iter().all(|l| *l == Some(*parent) || (l.is_none() && parent.is_nil())) && !lat.is_empty() && lat.iter().all(|l| l.is_some()) {
                        out.violate("spurious-rejection".to_string(), format!("client {client}: add_version({parent}) was rejected although 'latest' equalled the parent throughout the call"), replay);
                        return None;
                    }
                    if store_log[from.min(*log_at)..(*log_at).min(store_log.len())].iter().any(|e| e.client == *client as u32 && e.outcome == "cas-false") {
                        lost_cas += 1;
                    }
                }
                Err(_) => {
                    last_rejected.remove(client);
                    out.count("add_errors", 1)
                }
            },
            CEv::GetRet { client, parent, result } => {
                if let Ok(Some((v, b))) = result {
                    out.count("versions_served", 1);
                    match on_chain.get(v) {
                        None => {
                            out.violate("off-chain-version-served".to_string(), format!("client {client} received version {v} as child of {parent}; it is not on the final chain (leftover of a lost attempt?)"), replay);
                            return None;
                        }
                        Some((p, cb)) => {
                            if p != parent || cb != b {
                                out.violate("served-version-altered".to_string(), format!("client {client} received {v} with a different parent or bytes than the chain holds"), replay);
                                return None;
                            }
                        }
                    }
                } else if let Err(e) = result {
                    out.violate("get-child-error".to_string(), format!("client {client}: get_child_version({parent}) failed: {e}"), replay);
                    return None;
                }
            }
            CEv::GetSnapRet { client, result } => match result {
                Ok(Some((v, b))) => {
                    let ok = events.iter().any(|e| matches!(e, CEv::SnapRet { version, .. } if version == v)) && b.starts_with(b"snapshot-by-");
                    if !ok {
                        out.violate("snapshot-altered".to_string(), format!("client {client}: get_snapshot returned ({v}, {} bytes) which nobody stored", b.len()), replay);
                        return None;
                    }
                    out.count("snapshots_read_back", 1);
                }
                Ok(None) => {}
                Err(e) => {
                    out.violate("get-snapshot-error".to_string(), format!("{e}"), replay);
                    return None;
                }
            },
            _ => {}
        }
    }
    // chain bytes equal what was submitted for those ids
    for (v, _, b) in &chain {
        if let Some(s) = submitted.get(v) {
            if s != b {
                out.violate("chain-bytes-differ-from-submitted".to_string(), format!("version {v}"), replay);
                return None;
            }
        }
    }
    // readers that saw >=2 candidate children: a list page for "v-<parent>-" returning >= 2 names
    let multi = store_log[log0..].iter().filter(|e| e.name.starts_with("v-") && e.name.len() > 30 && e.outcome.starts_with("page:") && e.outcome[5..].parse::<usize>().map(|n| n >= 2).unwrap_or(false)).count() as u64;
    out.count("lost_cas", lost_cas);
    out.count("list_pages_with_two_candidates", multi);
    out.count("schedules", 1);
    out.count("final_chain_length", chain.len() as u64);
    let th = fnv(format!("{:?}", o.trace.iter().map(|t| (t.0, t.1.clone())).collect::<Vec<_>>()).as_bytes());
    Some(RunInfo { trace_hash: th, lost_cas, multi_candidate_reads: multi, steps: o.trace.len() })
}

pub fn run(ctx: &Ctx) -> Outcome {
    let mut acc = Acc::default();
    let seed = ctx.seed;
    let only = ctx.replay.as_ref().and_then(|r| r.get("stratum").and_then(|s| s.as_str()).map(|s| s.to_string()));
    let only_idx = ctx.replay.as_ref().and_then(|r| r.get("index").and_then(|s| s.as_u64()));
    let replay_sched: Option<Vec<usize>> = ctx.replay.as_ref().and_then(|r| r.get("schedule")).and_then(|s| s.as_array()).map(|a| a.iter().filter_map(|x| x.as_u64().map(|x| x as usize)).collect());
    let want = |s: &str| only.as_deref().map(|o| o == s).unwrap_or(true);
    let range = |n: u64| -> (u64, u64) { match only_idx { Some(i) => (i, i + 1), None => (0, n) } };

    if want("dfs") {
        // exhaustive: 2 adders x 1 add each (on chains of length 0/1/2), and 2 adders + 1 reader (budgeted)
        let scenarios: Vec<(Scenario, u64)> = vec![
            (Scenario { prior_versions: 0, roles: vec![Role::Adder { payloads: 1 }, Role::Adder { payloads: 1 }], page_size: 2 }, u64::MAX),
            (Scenario { prior_versions: 1, roles: vec![Role::Adder { payloads: 1 }, Role::Adder { payloads: 1 }], page_size: 2 }, u64::MAX),
            (Scenario { prior_versions: 2, roles: vec![Role::Adder { payloads: 1 }, Role::Adder { payloads: 1 }], page_size: 3 }, u64::MAX),
            (Scenario { prior_versions: 1, roles: vec![Role::Adder { payloads: 1 }, Role::Snapshotter], page_size: 2 }, u64::MAX),
            (Scenario { prior_versions: 1, roles: vec![Role::Adder { payloads: 1 }, Role::Adder { payloads: 1 }, Role::Reader { walks: 1 }], page_size: 2 }, ctx.tier.pick(60_000, 2_000_000)),
        ];
        let (lo, hi) = range(scenarios.len() as u64);
        run_cases(&mut acc, "dfs", hi - lo, |i| {
            let i = i + lo;
            let (sc, budget) = &scenarios[i as usize];
            let mut out = CaseOut::new();
            out.evaluations = 0;
            if let Some(s) = &replay_sched {
                let mut src = ReplaySource { clients: s.clone() };
                run_schedule("dfs", i, sc, &mut src, &mut out, json!({}));
                return out;
            }
            let mut dfs = DfsSource::new();
            let mut runs = 0u64;
            let mut with_lost = 0u64;
            let mut done = false;
            loop {
                dfs.begin_run();
                out.evaluations += 1;
                runs += 1;
                match run_schedule("dfs", i, sc, &mut dfs, &mut out, json!({"dfs_run": runs})) {
                    Some(r) => {
                        if r.lost_cas > 0 {
                            with_lost += 1;
                            out.nontrivial = Some(r.trace_hash);
                        }
                    }
                    None => break,
                }
                if !dfs.advance() {
                    done = true;
                    break;
                }
                if runs >= *budget {
                    break;
                }
            }
            out.count("dfs_schedules", runs);
            out.count("dfs_schedules_with_lost_cas", with_lost);
            if done {
                out.count("dfs_scenarios_exhausted", 1);
            }
            out.sample = Some(json!({"scenario": format!("{} prior versions, roles {:?}, page size {}", sc.prior_versions, sc.roles, sc.page_size), "schedules_enumerated": runs, "exhausted": done, "schedules_with_lost_compare_and_swap": with_lost}));
            out
        });
        if only.is_none() {
            let ex = acc.counter("dfs_scenarios_exhausted");
            acc.exhaustive_parts.push(format!("dfs: {ex} of 5 scenarios enumerated completely at single-request / list-page granularity (2 adders on chains of length 0,1,2; adder + snapshot writer; 2 adders + reader is budgeted)"));
        }
    }
    if want("random") {
        let (lo, hi) = range(ctx.tier.pick(150_000, 2_000_000));
        run_cases(&mut acc, "random", hi - lo, |i| {
            let i = i + lo;
            let mut rng = Rng::derive(seed, "c09-random", i);
            let n = 3 + rng.below(2);
            let mut roles = vec![];
            for c in 0..n {
                roles.push(match (c, rng.below(5)) {
                    (0, _) | (1, _) => Role::Adder { payloads: 1 + rng.below(3) },
                    (_, 0) | (_, 1) => Role::Reader { walks: 1 + rng.below(2) },
                    (_, 2) => Role::Snapshotter,
                    _ => Role::Adder { payloads: 1 + rng.below(2) },
                });
            }
            let sc = Scenario { prior_versions: rng.below(3), roles, page_size: 2 + rng.below(2) };
            let mut out = CaseOut::new();
            let mut src: Box<dyn DecisionSource> = match &replay_sched {
                Some(s) => Box::new(ReplaySource { clients: s.clone() }),
                None => Box::new(RandomSource { rng: Rng::derive(seed, "c09-sched", i), delay_client: if rng.chance(1, 2) { Some(rng.below(n)) } else { None } }),
            };
            if let Some(r) = run_schedule("random", i, &sc, src.as_mut(), &mut out, json!({})) {
                if r.lost_cas > 0 || r.multi_candidate_reads > 0 {
                    out.nontrivial = Some(r.trace_hash);
                }
                if i < 2 {
                    out.sample = Some(json!({"roles": format!("{:?}", sc.roles), "steps": r.steps, "lost_cas": r.lost_cas, "list_pages_with_two_candidates": r.multi_candidate_reads}));
                }
            }
            out
        });
    }
    if only.is_none() {
        acc.require("lost_cas", 50, "too few schedules with a lost compare-and-swap");
        acc.require("list_pages_with_two_candidates", 20, "no reader ever saw two candidate children");
        acc.require("accepted_adds", 1000, "too few accepted versions");
    }
    Outcome {
        level: "exploration",
        rule: "clients = adders (walk to the end, add, on rejection walk again and retry), chain-walking readers, snapshot writers, over a prior chain of 0-2 versions; every object-store request and list page (page size 2-3) is a scheduling point; DFS-exhaustive for two adders / adder+snapshot writer, budgeted DFS for two adders + reader, seeded random (half with a delayed client) for 3-4 clients with 1-3 adds each; cleanup draw pinned to 255; non-trivial = a compare-and-swap was lost or a list page showed two candidate children; distinct by the (client, request) sequence (DFS strata: one representative per scenario in distinct_nontrivial, totals in monitor_events.dfs_schedules_with_lost_cas)".into(),
        exhaustive: None,
        acc,
        assumptions: vec![
            "the in-memory Service executes each request atomically and lists pages from the current contents".into(),
            "loser objects are not required to disappear, only never to be served".into(),
        ],
        extra: Default::default(),
    }
}

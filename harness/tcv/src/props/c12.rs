//! C12 — snapshots reproduce exactly the state of their version (E1).
//!
//! The harness server chooses the urgency returned by every `add_version`, records every
//! `add_snapshot`, decodes the bytes itself (zlib + JSON object uuid -> properties) and compares
//! with its own replay of the chain up to the snapshot's version. It can discard pre-snapshot
//! versions so that a fresh replica must start from the snapshot, and offers a poison snapshot to
//! replicas that already hold data.

use flate2::read::ZlibDecoder;
use serde_json::{json, Value};
use std::io::Read;
use taskchampion::server::SnapshotUrgency;
use uuid::Uuid;

use crate::exec::block_on;
use crate::model::{self, Tasks};
use crate::props::c14::hostile_string;
use crate::report::{run_cases, Acc, CaseOut, Ctx, Outcome};
use crate::rng::{fnv, Rng};
use crate::srv::{ChainRef, Ev};
use crate::world::*;

pub fn decode_snapshot(bytes: &[u8]) -> Result<Tasks, String> {
    let mut d = ZlibDecoder::new(bytes);
    let mut s = Vec::new();
    d.read_to_end(&mut s).map_err(|e| format!("zlib: {e}"))?;
    let v: Value = serde_json::from_slice(&s).map_err(|e| format!("json: {e}"))?;
    let o = v.as_object().ok_or("snapshot is not a JSON object")?;
    let mut out = Tasks::new();
    for (k, t) in o {
        let u = Uuid::parse_str(k).map_err(|_| format!("bad uuid key {k}"))?;
        let props = t.as_object().ok_or("task is not an object")?;
        let mut m = model::TaskM::new();
        for (pk, pv) in props {
            m.insert(pk.clone(), pv.as_str().ok_or("property value is not a string")?.to_string());
        }
        out.insert(u, m);
    }
    Ok(out)
}

pub fn encode_snapshot(t: &Tasks) -> Vec<u8> {
    use flate2::{write::ZlibEncoder, Compression};
    use std::io::Write;
    let mut o = serde_json::Map::new();
    for (u, m) in t {
        let mut pm = serde_json::Map::new();
        for (k, v) in m {
            pm.insert(k.clone(), json!(v));
        }
        o.insert(u.to_string(), Value::Object(pm));
    }
    let mut e = ZlibEncoder::new(Vec::new(), Compression::default());
    e.write_all(&serde_json::to_vec(&Value::Object(o)).unwrap()).unwrap();
    e.finish().unwrap()
}

fn urgency(n: usize) -> SnapshotUrgency {
    match n % 3 {
        0 => SnapshotUrgency::None,
        1 => SnapshotUrgency::Low,
        _ => SnapshotUrgency::High,
    }
}

struct SnapCfg {
    big: bool,
    many: bool,
}

fn history_case(tag: &'static str, i: u64, seed: u64, cfg: SnapCfg, out: &mut CaseOut) {
    let mut rng = Rng::derive(seed, tag, i);
    let chain = ChainRef::new();
    let replay = json!({"stratum": tag, "index": i});
    let n_rep = 1 + rng.below(3);
    let mut reps: Vec<R> = (0..n_rep).map(|k| new_replica(k, if rng.chance(1, 12) { StoreKind::Sqlite } else { StoreKind::Mem }, &chain)).collect();
    let avoid: Vec<bool> = (0..n_rep).map(|_| rng.chance(1, 2)).collect();
    let uuids: Vec<Uuid> = (0..(1 + rng.below(4))).map(|_| rng.uuid()).collect();
    let mut counter = 0u64;
    let steps = 4 + rng.below(14);
    for _ in 0..steps {
        let k = rng.below(n_rep);
        if rng.chance(55, 100) {
            let mut abs = vec![];
            if cfg.many && rng.chance(1, 4) {
                // thousands of tasks in one go
                for _ in 0..(1000 + rng.below(4000)) {
                    counter += 1;
                    // mostly non-ASCII text, so that multi-byte characters fall on every
                    // buffer boundary a decoder might use
                    abs.push(AbsOp::Set(rng.uuid(), "description".into(), format!("tâche №{counter} — 日本語のテキスト 🚀 übergrößen"), ts(1)));
                }
            }
            for _ in 0..(1 + rng.below(5)) {
                let u = *rng.pick(&uuids);
                counter += 1;
                abs.push(match rng.below(10) {
                    0 => AbsOp::Create(u), // possibly an empty task
                    1 => AbsOp::Delete(u),
                    2 => AbsOp::Remove(u, format!("p{}", rng.below(3)), ts(rng.range(0, 9))),
                    _ => {
                        let key = if rng.chance(1, 3) { hostile_string(&mut rng) } else { format!("p{}", rng.below(3)) };
                        let val = if cfg.big && rng.chance(2, 5) {
                            let mut s = format!("B{k}-{counter}-");
                            if rng.chance(1, 2) {
                                s.extend(std::iter::repeat('y').take(300_000 + rng.below(800_000)));
                            } else {
                                // two- and three-byte characters, odd total offsets
                                s.push_str(if rng.chance(1, 2) { "x" } else { "" });
                                s.extend(std::iter::repeat("ÿ€").take(60_000 + rng.below(160_000)));
                            }
                            s
                        } else if rng.chance(1, 2) {
                            hostile_string(&mut rng)
                        } else {
                            format!("r{k}-{counter}")
                        };
                        AbsOp::Set(u, key, val, ts(rng.range(0, 9)))
                    }
                });
            }
            let ops = match concretise(&mut reps[k].rep, &abs) {
                Ok(o) => o,
                Err(e) => {
                    out.inconclusive = Some(e);
                    return;
                }
            };
            if let Err(e) = block_on(reps[k].rep.commit_operations(ops)) {
                out.violate("commit-error", format!("{e:#}"), replay.clone());
                return;
            }
        } else {
            // scheduler decision: urgencies the server will state for the next add_version calls
            {
                let mut c = chain.0.borrow_mut();
                c.urgency_script.clear();
                for _ in 0..4 {
                    let u = urgency(rng.below(3));
                    c.urgency_script.push_back(u);
                }
                c.urgency_default = urgency(rng.below(3));
            }
            let ev0 = chain.0.borrow().events.len();
            if let Err(e) = sync(&mut reps[k], &chain, avoid[k]) {
                out.violate("sync-error", format!("{e:#}"), replay.clone());
                return;
            }
            out.count("syncs", 1);
            // judge this sync's snapshot behaviour
            let c = chain.0.borrow();
            let evs = &c.events[ev0..];
            let threshold = if avoid[k] { SnapshotUrgency::High } else { SnapshotUrgency::Low };
            let adds: Vec<(Uuid, SnapshotUrgency)> = evs.iter().filter_map(|e| match e { Ev::Add { accepted: Some(id), urgency, .. } => Some((*id, *urgency)), _ => None }).collect();
            if adds.len() >= 2 {
                out.count("multi_version_syncs", 1);
            }
            for e in evs {
                if let Ev::AddSnapshot { version, bytes, .. } = e {
                    out.count("snapshots_seen", 1);
                    let Some((_, urg)) = adds.iter().find(|(id, _)| id == version) else {
                        out.violate("snapshot/for-foreign-version", format!("snapshot uploaded for version {version} which this sync did not add"), replay.clone());
                        return;
                    };
                    if *urg < threshold {
                        out.violate("snapshot/below-threshold", format!("snapshot produced although urgency {urg:?} < threshold {threshold:?}"), replay.clone());
                        return;
                    }
                    let got = match decode_snapshot(bytes) {
                        Ok(t) => t,
                        Err(e) => {
                            out.violate("snapshot/undecodable", e, replay.clone());
                            return;
                        }
                    };
                    let want = c.replay_to_version(*version).unwrap_or_default();
                    if got != want {
                        let pos = adds.iter().position(|(id, _)| id == version).unwrap_or(0);
                        let class = if pos + 1 < adds.len() { "between-batches" } else { "last-version" };
                        out.violate(format!("snapshot/content/{class}"), format!("snapshot for version {version} differs from the chain replay up to it: {}", model::diff_tasks(&got, &want)), replay.clone());
                        return;
                    }
                    out.count("snapshots_equal_replay", 1);
                }
            }
            // sufficiency: the *last* accepted version of the call with urgency >= threshold must
            // have been snapshotted (nothing is pending after it)
            if let Some((last, urg)) = adds.last() {
                let has = evs.iter().any(|e| matches!(e, Ev::AddSnapshot { version, .. } if version == last));
                if *urg >= threshold && !has {
                    out.violate("snapshot/missing", format!("no snapshot for the last version {last} although urgency {urg:?} >= threshold {threshold:?}"), replay.clone());
                    return;
                }
                if *urg >= threshold {
                    out.count("snapshots_expected_and_made", 1);
                } else {
                    out.count("urgency_below_threshold_no_snapshot", 1);
                }
            }
        }
    }
    // quiesce, then: a fresh replica starting from the latest snapshot (older versions discarded)
    // ends in the same state as the full replay
    if let Err(e) = quiesce(&mut reps, &chain, 8) {
        out.violate("quiescence", e, replay.clone());
        return;
    }
    let expect = match check_converged(&mut reps, &chain) {
        Ok(t) => t,
        Err(e) => {
            out.violate("diverged-at-quiescence", e, replay.clone());
            return;
        }
    };
    let snap = chain.0.borrow().snapshots.last().cloned();
    if let Some((ver, _bytes, _)) = snap {
        let idx = chain.0.borrow().index_of(ver);
        if let Some(idx) = idx {
            chain.0.borrow_mut().first_available = idx + 1;
            let mut fresh = new_replica(50, StoreKind::Mem, &chain);
            if let Err(e) = sync(&mut fresh, &chain, true) {
                out.violate("fresh-from-snapshot/sync-error", format!("{e:#}"), replay.clone());
                return;
            }
            let got = block_on(model::replica_tasks(&mut fresh.rep)).unwrap_or_default();
            if got != expect {
                out.violate("fresh-from-snapshot/state", format!("fresh replica from snapshot@{} + {} later versions differs from full replay: {}", idx + 1, chain.0.borrow().versions.len() - idx - 1, model::diff_tasks(&got, &expect)), replay.clone());
                return;
            }
            if fresh.ctl.last().base != chain.0.borrow().latest() {
                out.violate("fresh-from-snapshot/base", "fresh replica not based on the chain head", replay.clone());
                return;
            }
            out.count("fresh_from_snapshot", 1);
            chain.0.borrow_mut().first_available = 0;
            out.nontrivial = Some(fnv(format!("{tag}{i}").as_bytes()));
        }
    }
    // a replica that already holds data never has it replaced by a snapshot: offer a poison
    // snapshot to replicas that are non-empty in each of the four ways
    let poison_tasks: Tasks = [(Uuid::from_u128(0xdead), [("poison".to_string(), "yes".to_string())].into_iter().collect())].into_iter().collect();
    let latest = chain.0.borrow().latest();
    chain.0.borrow_mut().serve_snapshot = Some(Some((latest, encode_snapshot(&poison_tasks))));
    for way in 0..4 {
        let c2 = ChainRef::new();
        c2.0.borrow_mut().serve_snapshot = Some(Some((crate::srv::version_uuid(777), encode_snapshot(&poison_tasks))));
        // both storage backends have their own notion of "empty"
        let poison_kind = if i % 3 == 0 { StoreKind::Sqlite } else { StoreKind::Mem };
        let mut r = new_replica(60 + way, poison_kind, &c2);
        let t = Uuid::from_u128(0xbeef);
        let way_name = match way {
            0 => {
                // tasks (and therefore pending operations)
                let ops = concretise(&mut r.rep, &[AbsOp::Set(t, "status".into(), "completed".into(), ts(1))]).unwrap();
                block_on(r.rep.commit_operations(ops)).unwrap();
                "tasks+pending"
            }
            1 => {
                // pending operations only: create and delete again
                let ops = concretise(&mut r.rep, &[AbsOp::Create(t), AbsOp::Delete(t)]).unwrap();
                block_on(r.rep.commit_operations(ops)).unwrap();
                "pending-only"
            }
            2 => {
                // base version only: synced once against an empty... a chain with one empty version
                let c3 = ChainRef::new();
                let mut helper = new_replica(70, StoreKind::Mem, &c3);
                let ops = concretise(&mut helper.rep, &[AbsOp::Create(t), AbsOp::Delete(t)]).unwrap();
                block_on(helper.rep.commit_operations(ops)).unwrap();
                let _ = sync(&mut helper, &c3, true);
                // move the helper's history to c2, then sync r against it without the poison
                c2.0.borrow_mut().versions = c3.0.borrow().versions.clone();
                let saved = c2.0.borrow_mut().serve_snapshot.take();
                let _ = sync(&mut r, &c2, true);
                c2.0.borrow_mut().serve_snapshot = saved;
                "base-version-only"
            }
            _ => {
                // working set only: a pending task created then purged leaves its slot behind
                let ops = concretise(&mut r.rep, &[AbsOp::Set(t, "status".into(), "pending".into(), ts(1))]).unwrap();
                block_on(r.rep.commit_operations(ops)).unwrap();
                let ops = concretise(&mut r.rep, &[AbsOp::Delete(t)]).unwrap();
                block_on(r.rep.commit_operations(ops)).unwrap();
                "working-set+pending"
            }
        };
        let before = block_on(model::replica_tasks(&mut r.rep)).unwrap_or_default();
        let res = sync(&mut r, &c2, true);
        let after = block_on(model::replica_tasks(&mut r.rep)).unwrap_or_default();
        let asked = c2.0.borrow().events.iter().any(|e| matches!(e, Ev::GetSnapshot { .. }));
        if after.contains_key(&Uuid::from_u128(0xdead)) {
            out.violate(format!("poison-snapshot-applied/{way_name}"), format!("a replica holding data ({way_name}) had it replaced by a snapshot (sync result {:?}); before {}", res.as_ref().err().map(|e| e.to_string()), model::show_tasks(&before)), replay.clone());
            return;
        }
        let _ = asked;
        out.count("poison_offers_refused", 1);
        if poison_kind == StoreKind::Sqlite {
            out.count("poison_offers_refused_sqlite", 1);
        }
    }
    chain.0.borrow_mut().serve_snapshot = None;
    if i % 53 < 2 {
        let c = chain.0.borrow();
        out.sample = Some(json!({"versions": c.versions.len(), "snapshots": c.snapshots.iter().map(|(v, b, _)| json!({"version": v.to_string(), "bytes": b.len()})).collect::<Vec<_>>(), "avoid_snapshots": avoid}));
    }
}

/// Regression corpus: F4d — High urgency on the first of several batches.
fn corpus_case(out: &mut CaseOut) {
    let chain = ChainRef::new();
    let replay = json!({"stratum": "corpus", "index": 0});
    let mut r = new_replica(0, StoreKind::Mem, &chain);
    let t = Uuid::from_u128(0x1212);
    let bigs = |tag: &str| {
        let mut s = format!("{tag}-");
        s.extend(std::iter::repeat('z').take(600_000));
        s
    };
    let abs = vec![AbsOp::Create(t), AbsOp::Set(t, "q".into(), bigs("q"), ts(1)), AbsOp::Set(t, "r".into(), bigs("r"), ts(1)), AbsOp::Set(t, "p".into(), "LATE".into(), ts(2))];
    let ops = concretise(&mut r.rep, &abs).unwrap();
    block_on(r.rep.commit_operations(ops)).unwrap();
    {
        let mut c = chain.0.borrow_mut();
        c.urgency_script.push_back(SnapshotUrgency::High);
        c.urgency_default = SnapshotUrgency::None;
    }
    if let Err(e) = sync(&mut r, &chain, false) {
        out.violate("sync-error", format!("{e:#}"), replay);
        return;
    }
    let c = chain.0.borrow();
    out.count("multi_version_syncs", (c.versions.len() >= 2) as u64);
    for (ver, bytes, _) in &c.snapshots {
        out.count("snapshots_seen", 1);
        let got = decode_snapshot(bytes).unwrap_or_default();
        let want = c.replay_to_version(*ver).unwrap_or_default();
        if got != want {
            out.violate("snapshot/content/between-batches", format!("snapshot for version {ver} differs from the chain replay up to it: {}", model::diff_tasks(&got, &want)), replay);
            return;
        }
    }
    out.nontrivial = Some(1);
}

pub fn run(ctx: &Ctx) -> Outcome {
    let mut acc = Acc::default();
    let seed = ctx.seed;
    let only = ctx.replay.as_ref().and_then(|r| r.get("stratum").and_then(|s| s.as_str()).map(|s| s.to_string()));
    let only_idx = ctx.replay.as_ref().and_then(|r| r.get("index").and_then(|s| s.as_u64()));
    let want = |s: &str| only.as_deref().map(|o| o == s).unwrap_or(true);
    let range = |n: u64| -> (u64, u64) { match only_idx { Some(i) => (i, i + 1), None => (0, n) } };
    if want("corpus") {
        run_cases(&mut acc, "corpus", 1, |_| {
            let mut out = CaseOut::new();
            corpus_case(&mut out);
            out
        });
    }
    if want("c12-small") {
        let (lo, hi) = range(ctx.tier.pick(1500, 60_000));
        run_cases(&mut acc, "c12-small", hi - lo, |i| {
            let mut out = CaseOut::new();
            history_case("c12-small", i + lo, seed, SnapCfg { big: false, many: false }, &mut out);
            out
        });
    }
    if want("c12-big") {
        let (lo, hi) = range(ctx.tier.pick(40, 1500));
        run_cases(&mut acc, "c12-big", hi - lo, |i| {
            let mut out = CaseOut::new();
            history_case("c12-big", i + lo, seed, SnapCfg { big: true, many: false }, &mut out);
            out
        });
    }
    if want("c12-many") {
        let (lo, hi) = range(ctx.tier.pick(12, 300));
        run_cases(&mut acc, "c12-many", hi - lo, |i| {
            let mut out = CaseOut::new();
            history_case("c12-many", i + lo, seed, SnapCfg { big: false, many: true }, &mut out);
            out
        });
    }
    if only.is_none() {
        acc.require("snapshots_equal_replay", 20, "too few snapshots observed");
        acc.require("multi_version_syncs", 1, "no sync spanning several versions");
        acc.require("fresh_from_snapshot", 10, "too few fresh replicas started from a snapshot");
        acc.require("urgency_below_threshold_no_snapshot", 5, "never saw an urgency below the threshold");
    }
    Outcome {
        level: "exploration",
        rule: "seeded histories over 1-3 replicas (random avoid_snapshots flag each) with hostile Unicode keys/values, empty tasks, >1MB multi-version syncs and thousands-of-tasks commits; the harness server scripts the urgency of every add_version reply; every snapshot is decoded independently and compared with the chain replay up to its version; then a fresh replica starts from the last snapshot with older versions discarded; poison snapshots offered to replicas non-empty in four ways; non-trivial = a fresh replica was started from a snapshot; distinct by case".into(),
        exhaustive: None,
        acc,
        assumptions: vec![
            "'missing snapshot' is asserted only for the last version of a sync call (the docs require a snapshot to be made with no unsynchronized operations)".into(),
            "snapshot bytes are zlib-compressed JSON {uuid: {property: value}} as documented".into(),
        ],
        extra: Default::default(),
    }
}

//! C14 — what is sent to the server is the documented operation format only (E1).
//!
//! Forward: a strict validator (written here, on `serde_json::Value`) examines every history
//! segment that crosses the `Server` trait: UTF-8 JSON, the one-key `operations` wrapper, each
//! element exactly `{"Create":{uuid}}`, `{"Delete":{uuid}}` or
//! `{"Update":{uuid,property,value,timestamp}}`, hyphenated uuids, `Z`-suffixed RFC 3339 instants
//! equal to the committed ones, committed order preserved (conflict-free single-replica flows),
//! and no marker planted in undo points / old values / deleted tasks' contents.
//! Converse: hand-written documents in the documented format (other field orders, whitespace,
//! escapes, timestamp precisions) must be applied exactly as the reference model does.

use chrono::{DateTime, Utc};
use serde_json::{json, Value};
use taskchampion::{Operation, Operations};
use uuid::Uuid;

use crate::exec::block_on;
use crate::model::{self, MOp, Tasks};
use crate::report::{run_cases, Acc, CaseOut, Ctx, Outcome};
use crate::rng::{fnv, Rng};
use crate::srv::{ChainRef, Ev, VersionRec};
use crate::world::*;

pub const STRINGS: &[&str] = &[
    "", " ", "plain", "with \"quotes\"", "back\\slash", "new\nline", "tab\tchar", "nul\u{0}byte", "\u{7f}\u{1}\u{1f}",
    "é", "日本語", "😀 emoji", "\u{10FFFF}", "\u{FFFD}", "\u{D7FF}\u{E000}", "{\"json\":true}", "</script>", "null", "0", "Z",
    "2021-10-11T12:47:07Z", "a,b;c:d", "status", "modified", "\u{202e}rtl", "\r\n",
];

pub fn hostile_string(rng: &mut Rng) -> String {
    match rng.below(10) {
        0..=5 => (*rng.pick(STRINGS)).to_string(),
        6 => {
            let n = rng.below(12);
            (0..n).map(|_| char::from_u32(rng.below(0x2FF) as u32).unwrap_or('x')).collect()
        }
        7 => {
            let n = rng.below(6);
            (0..n).map(|_| *rng.pick(&['😀', '𝄞', '\u{10000}', 'ß', '\u{0}', '"', '\\'])).collect()
        }
        8 => format!("uniq-{}", rng.next_u64()),
        _ => "x".repeat(rng.below(3000)),
    }
}

/// Strict validation of one history segment; returns the decoded operations.
pub fn validate_segment(bytes: &[u8]) -> Result<Vec<MOp>, String> {
    let s = std::str::from_utf8(bytes).map_err(|_| "not-utf8".to_string())?;
    let v: Value = serde_json::from_str(s).map_err(|e| format!("not-json: {e}"))?;
    let obj = v.as_object().ok_or("top-level-not-object")?;
    if obj.len() != 1 || !obj.contains_key("operations") {
        return Err(format!("top-level-keys: {:?}", obj.keys().collect::<Vec<_>>()));
    }
    let arr = obj["operations"].as_array().ok_or("operations-not-array")?;
    let mut out = vec![];
    for el in arr {
        let o = el.as_object().ok_or("element-not-object")?;
        if o.len() != 1 {
            return Err(format!("element-keys: {:?}", o.keys().collect::<Vec<_>>()));
        }
        let (k, body) = o.iter().next().unwrap();
        let body = body.as_object().ok_or("body-not-object")?;
        let uuid_s = body.get("uuid").and_then(|x| x.as_str()).ok_or("uuid-missing")?;
        if uuid_s.len() != 36 || uuid_s.chars().any(|c| c.is_ascii_uppercase()) {
            return Err(format!("uuid-format: {uuid_s}"));
        }
        let uuid = Uuid::parse_str(uuid_s).map_err(|_| format!("uuid-format: {uuid_s}"))?;
        let keys: Vec<&str> = body.keys().map(|s| s.as_str()).collect();
        match k.as_str() {
            "Create" | "Delete" => {
                if keys != ["uuid"] {
                    return Err(format!("extra-fields in {k}: {keys:?}"));
                }
                out.push(if k == "Create" { MOp::Create(uuid) } else { MOp::Delete(uuid) });
            }
            "Update" => {
                let mut ks = keys.clone();
                ks.sort();
                if ks != ["property", "timestamp", "uuid", "value"] {
                    return Err(format!("extra-fields in Update: {keys:?}"));
                }
                let prop = body["property"].as_str().ok_or("property-not-string")?.to_string();
                let value = match &body["value"] {
                    Value::Null => None,
                    Value::String(s) => Some(s.clone()),
                    _ => return Err("value-not-string-or-null".into()),
                };
                let t = body["timestamp"].as_str().ok_or("timestamp-not-string")?;
                if !t.ends_with('Z') {
                    return Err(format!("timestamp-not-Z: {t}"));
                }
                let ts = DateTime::parse_from_rfc3339(t).map_err(|_| format!("timestamp-not-rfc3339: {t}"))?.with_timezone(&Utc);
                out.push(MOp::Update { uuid, prop, value, ts });
            }
            other => return Err(format!("unknown-operation: {other}")),
        }
    }
    Ok(out)
}

const MARK_OLD: &str = "OLDMARK7c1d";
const MARK_TASK: &str = "TASKMARK9e2f";

fn forward_case(i: u64, seed: u64, out: &mut CaseOut) {
    let mut rng = Rng::derive(seed, "c14-forward", i);
    let chain = ChainRef::new();
    let kind = if rng.chance(1, 10) { StoreKind::Sqlite } else { StoreKind::Mem };
    let mut r = new_replica(0, kind, &chain);
    let uuids: Vec<Uuid> = (0..3).map(|_| rng.uuid()).collect();
    let replay = json!({"stratum": "forward", "index": i});
    let mut committed: Vec<MOp> = vec![];
    let rounds = 1 + rng.below(4);
    let mut sent_before = 0usize;
    for _ in 0..rounds {
        // commit a few batches of valid operations with hostile strings
        for _ in 0..(1 + rng.below(3)) {
            let mut ops = Operations::new();
            let mut shadow: std::collections::BTreeMap<Uuid, Option<model::TaskM>> = Default::default();
            for u in &uuids {
                let cur = block_on(r.rep.get_task_data(*u)).ok().flatten();
                shadow.insert(*u, cur.map(|td| td.iter().map(|(k, v)| (k.clone(), v.clone())).collect()));
            }
            for _ in 0..(1 + rng.below(8)) {
                let u = *rng.pick(&uuids);
                let e = shadow.get_mut(&u).unwrap();
                match rng.below(10) {
                    0 => ops.push(Operation::UndoPoint),
                    1 if e.is_some() => {
                        // delete a populated task: its old content must not leave the replica
                        let mut old: taskchampion::storage::TaskMap = e.take().unwrap().into_iter().collect();
                        // the stored old_task is whatever the caller recorded; plant a marker in it
                        old.insert(format!("k{MARK_TASK}"), format!("v{MARK_TASK}"));
                        ops.push(Operation::Delete { uuid: u, old_task: old });
                    }
                    _ => {
                        if e.is_none() {
                            ops.push(Operation::Create { uuid: u });
                            *e = Some(Default::default());
                        }
                        let m = e.as_mut().unwrap();
                        let prop = if rng.chance(1, 3) { hostile_string(&mut rng) } else { format!("p{}", rng.below(3)) };
                        let value = if rng.chance(1, 5) { None } else { Some(hostile_string(&mut rng)) };
                        let t = ts_ns(rng.range(-100, 100), match rng.below(4) { 0 => 0, 1 => 123_000_000, 2 => 123_456_000, _ => rng.below(1_000_000_000) as u32 });
                        match &value {
                            Some(v) => {
                                m.insert(prop.clone(), v.clone());
                            }
                            None => {
                                m.remove(&prop);
                            }
                        }
                        // the recorded old value is local undo information and must have no
                        // influence on what is sent: usually a marker, sometimes absent, sometimes
                        // (an update that re-asserts a value / removes an absent property) equal
                        // to the new value
                        let old_value = match rng.below(6) {
                            0 => None,
                            1 => value.clone(),
                            _ => Some(format!("{MARK_OLD}-{}", rng.below(100))),
                        };
                        if old_value == value {
                            out.count("updates_with_old_equal_new", 1);
                        }
                        ops.push(Operation::Update { uuid: u, property: prop, old_value, value, timestamp: t });
                    }
                }
            }
            committed.extend(ops.iter().filter_map(model::from_operation));
            if let Err(e) = block_on(r.rep.commit_operations(ops)) {
                out.violate("commit-error", format!("{e:#}"), replay.clone());
                return;
            }
        }
        if let Err(e) = sync(&mut r, &chain, false) {
            out.violate("sync-error", format!("{e:#}"), replay.clone());
            return;
        }
        // examine what crossed the Server boundary in this sync
        let c = chain.0.borrow();
        let mut sent: Vec<MOp> = vec![];
        for v in &c.versions {
            out.count("segments_validated", 1);
            match validate_segment(&v.bytes) {
                Ok(ops) => sent.extend(ops),
                Err(e) => {
                    let class = e.split(':').next().unwrap_or("?").to_string();
                    out.violate(format!("format/{class}"), format!("segment {} is not in the documented format: {e}; bytes: {}", v.id, model::trunc(&String::from_utf8_lossy(&v.bytes))), replay.clone());
                    return;
                }
            }
            let text = String::from_utf8_lossy(&v.bytes);
            if text.contains(MARK_OLD) || text.contains(MARK_TASK) {
                out.violate("leak/old-content", format!("undo information left the replica: {}", model::trunc(&text)), replay.clone());
                return;
            }
        }
        out.count("operations_sent", (sent.len() - sent_before) as u64);
        sent_before = sent.len();
        if sent != committed {
            let pos = sent.iter().zip(committed.iter()).position(|(a, b)| a != b).unwrap_or(sent.len().min(committed.len()));
            out.violate(
                "order-or-content",
                format!("operations on the wire differ from the committed ones at position {pos}: sent {:?} committed {:?}", sent.get(pos).map(|o| o.short()), committed.get(pos).map(|o| o.short())),
                replay.clone(),
            );
            return;
        }
    }
    if committed.iter().any(|o| matches!(o, MOp::Update { .. })) {
        out.nontrivial = Some(fnv(format!("{:?}", committed.iter().map(|o| o.short()).collect::<Vec<_>>()).as_bytes()));
    }
    if i < 2 {
        let c = chain.0.borrow();
        out.sample = c.versions.first().map(|v| json!({"segment": model::trunc(&String::from_utf8_lossy(&v.bytes)), "ops": committed.len()}));
    }
}

fn json_str(s: &str, rng: &mut Rng) -> String {
    // serde_json's escaping, optionally with \uXXXX escapes for non-ASCII BMP characters
    if rng.chance(1, 3) {
        let mut o = String::from("\"");
        for ch in s.chars() {
            match ch {
                '"' => o.push_str("\\\""),
                '\\' => o.push_str("\\\\"),
                '/' if rng.chance(1, 2) => o.push_str("\\/"),
                c if (c as u32) < 0x20 => o.push_str(&format!("\\u{:04x}", c as u32)),
                c if (c as u32) > 0x7e && (c as u32) < 0x10000 => o.push_str(&format!("\\u{:04X}", c as u32)),
                c if (c as u32) >= 0x10000 => {
                    let v = c as u32 - 0x10000;
                    o.push_str(&format!("\\u{:04x}\\u{:04x}", 0xD800 + (v >> 10), 0xDC00 + (v & 0x3FF)));
                }
                c => o.push(c),
            }
        }
        o.push('"');
        o
    } else {
        serde_json::to_string(s).unwrap()
    }
}

fn ts_text(t: DateTime<Utc>, rng: &mut Rng) -> String {
    use chrono::SecondsFormat::*;
    // precision must not lose information: pick one that represents the instant exactly
    let n = t.timestamp_subsec_nanos();
    let mut fmts = vec![Nanos];
    if n % 1000 == 0 {
        fmts.push(Micros);
    }
    if n % 1_000_000 == 0 {
        fmts.push(Millis);
    }
    if n == 0 {
        fmts.push(Secs);
    }
    t.to_rfc3339_opts(*rng.pick(&fmts), true)
}

/// Write a version by hand: documented grammar, but not this implementation's exact byte layout.
fn hand_written(ops: &[MOp], rng: &mut Rng) -> Vec<u8> {
    let ws = |rng: &mut Rng| -> &'static str { *rng.pick(&["", "", " ", "\n", "\t ", "  "]) };
    let mut s = String::new();
    s.push_str(ws(rng));
    s.push('{');
    s.push_str(ws(rng));
    s.push_str("\"operations\"");
    s.push_str(ws(rng));
    s.push(':');
    s.push_str(ws(rng));
    s.push('[');
    for (i, o) in ops.iter().enumerate() {
        if i > 0 {
            s.push(',');
        }
        s.push_str(ws(rng));
        match o {
            MOp::Create(u) => s.push_str(&format!("{{{}\"Create\"{}:{}{{\"uuid\":{}\"{}\"{}}}}}", ws(rng), ws(rng), ws(rng), ws(rng), u, ws(rng))),
            MOp::Delete(u) => s.push_str(&format!("{{\"Delete\":{{{}\"uuid\"{}:\"{}\"}}{}}}", ws(rng), ws(rng), u, ws(rng))),
            MOp::Update { uuid, prop, value, ts } => {
                let mut fields = vec![
                    format!("\"uuid\"{}:{}\"{}\"", ws(rng), ws(rng), uuid),
                    format!("\"property\":{}{}", ws(rng), json_str(prop, rng)),
                    format!("\"value\"{}:{}", ws(rng), match value { Some(v) => json_str(v, rng), None => "null".into() }),
                    format!("\"timestamp\":\"{}\"", ts_text(*ts, rng)),
                ];
                rng.shuffle(&mut fields);
                s.push_str(&format!("{{\"Update\":{}{{{}}}}}", ws(rng), fields.join(&format!("{},{}", ws(rng), ws(rng)))));
            }
        }
    }
    s.push_str(ws(rng));
    s.push(']');
    s.push_str(ws(rng));
    s.push('}');
    s.push_str(ws(rng));
    s.into_bytes()
}

fn converse_case(i: u64, seed: u64, out: &mut CaseOut) {
    let mut rng = Rng::derive(seed, "c14-converse", i);
    let chain = ChainRef::new();
    let replay = json!({"stratum": "converse", "index": i});
    let uuids: Vec<Uuid> = (0..3).map(|_| rng.uuid()).collect();
    let mut expect = Tasks::new();
    let n_versions = 1 + rng.below(4);
    let mut docs = vec![];
    for n in 0..n_versions {
        let mut ops = vec![];
        for _ in 0..(1 + rng.below(8)) {
            let u = *rng.pick(&uuids);
            ops.push(match rng.below(8) {
                0 => MOp::Create(u),
                1 => MOp::Delete(u),
                // includes invalid-but-well-formed operations: updates of tasks that do not exist
                _ => MOp::Update {
                    uuid: u,
                    prop: if rng.chance(1, 3) { hostile_string(&mut rng) } else { format!("p{}", rng.below(3)) },
                    value: if rng.chance(1, 5) { None } else { Some(hostile_string(&mut rng)) },
                    ts: ts_ns(rng.range(-1000, 1000), match rng.below(4) { 0 => 0, 1 => 120_000_000, 2 => 120_450_000, _ => rng.below(1_000_000_000) as u32 }),
                },
            });
        }
        model::apply_all(&mut expect, &ops);
        let bytes = hand_written(&ops, &mut rng);
        // the hand-written document must itself pass the strict validator (self-test of the oracle)
        match validate_segment(&bytes) {
            Ok(back) if back == ops => {}
            other => {
                out.inconclusive = Some(format!("oracle self-test failed: hand-written document does not round-trip: {other:?}"));
                return;
            }
        }
        docs.push(String::from_utf8_lossy(&bytes).to_string());
        let mut c = chain.0.borrow_mut();
        let parent = c.latest();
        let id = crate::srv::version_uuid(1000 + n as u64);
        c.versions.push(VersionRec { id, parent, bytes, client: 99, sync_call: 0 });
    }
    let kind = if rng.chance(1, 10) { StoreKind::Sqlite } else { StoreKind::Mem };
    let mut r = new_replica(0, kind, &chain);
    let res = std::panic::catch_unwind(std::panic::AssertUnwindSafe(|| sync(&mut r, &chain, false)));
    match res {
        Err(p) => {
            out.violate("converse/panic", format!("replica panicked on a well-formed document: {}; docs {:?}", crate::report::panic_message(&p), docs.iter().map(|d| model::trunc(d)).collect::<Vec<_>>()), replay);
            return;
        }
        Ok(Err(e)) => {
            out.violate("converse/sync-error", format!("replica refused a well-formed document: {e:#}"), replay);
            return;
        }
        Ok(Ok(())) => {}
    }
    let got = block_on(model::replica_tasks(&mut r.rep)).unwrap_or_default();
    if got != expect {
        out.violate("converse/state", format!("state after applying hand-written versions differs: {}", model::diff_tasks(&got, &expect)), replay);
        return;
    }
    let pulled = chain.0.borrow().events.iter().filter(|e| matches!(e, Ev::GetChild { found: Some(_), .. })).count();
    out.count("hand_written_versions_applied", pulled as u64);
    out.nontrivial = Some(fnv(docs.join("|").as_bytes()));
    if i < 2 {
        out.sample = Some(json!({"document": model::trunc(&docs[0])}));
    }
}

/// Order under a race with a *disjoint* change: the replica's pending operations span several
/// versions and one of its add_version calls is rejected because another writer's version (touching
/// a different task) arrived first. Nothing conflicts, so what the replica sends — concatenated over
/// its accepted versions — must still be exactly the committed operations, in order.
fn race_case(i: u64, seed: u64, out: &mut CaseOut) {
    let mut rng = Rng::derive(seed, "c14-race", i);
    let replay = json!({"stratum": "race-disjoint", "index": i});
    let chain = ChainRef::new();
    let mut r = new_replica(0, StoreKind::Mem, &chain);
    let t = rng.uuid();
    let other = rng.uuid();
    let n_props = 3 + rng.below(4);
    let mut ops = Operations::new();
    ops.push(Operation::Create { uuid: t });
    for k in 0..n_props {
        let size = if rng.chance(2, 3) { 300_000 + rng.below(500_000) } else { 10 };
        let mut v = format!("v{k}-");
        v.extend(std::iter::repeat('q').take(size));
        ops.push(Operation::Update { uuid: t, property: format!("p{k}"), old_value: None, value: Some(v), timestamp: ts(k as i64) });
    }
    let committed: Vec<MOp> = ops.iter().filter_map(model::from_operation).collect();
    if block_on(r.rep.commit_operations(ops)).is_err() {
        out.inconclusive = Some("commit failed".into());
        return;
    }
    // the racing writer's version lands right before the replica's n-th add_version
    let foreign = model::encode_version(&[MOp::Create(other), MOp::Update { uuid: other, prop: "x".into(), value: Some("foreign".into()), ts: ts(50) }]);
    let nth = 1 + rng.below(3) as u64;
    chain.0.borrow_mut().inject_on_add.push((0, nth, foreign.clone()));
    if rng.chance(1, 3) {
        chain.0.borrow_mut().inject_on_add.push((0, nth + 2, model::encode_version(&[MOp::Update { uuid: other, prop: "y".into(), value: Some("foreign2".into()), ts: ts(51) }])));
    }
    chain.0.borrow_mut().reset_requests();
    if let Err(e) = sync(&mut r, &chain, false) {
        out.violate("race/sync-error".to_string(), format!("{e:#}"), replay);
        return;
    }
    let c = chain.0.borrow();
    let rejected = c.events.iter().filter(|e| matches!(e, Ev::Add { client: 0, accepted: None, .. })).count();
    let mut sent: Vec<MOp> = vec![];
    let mut n_versions = 0;
    for v in c.versions.iter().filter(|v| v.client == 0) {
        n_versions += 1;
        match validate_segment(&v.bytes) {
            Ok(o) => sent.extend(o),
            Err(e) => {
                out.violate("format/race".to_string(), e, replay);
                return;
            }
        }
    }
    out.count("race_syncs", 1);
    out.count("race_rejections", rejected as u64);
    if sent != committed {
        let pos = sent.iter().zip(committed.iter()).position(|(a, b)| a != b).unwrap_or(sent.len().min(committed.len()));
        out.violate(
            "order-or-content/after-rejection".to_string(),
            format!("after {rejected} rejected add_version(s) the {n_versions} versions sent differ from the committed operations at position {pos}: sent {:?} committed {:?}", sent.iter().map(|o| model::trunc(&o.short())).collect::<Vec<_>>(), committed.iter().map(|o| model::trunc(&o.short())).collect::<Vec<_>>()),
            replay,
        );
        return;
    }
    if rejected > 0 && n_versions >= 2 {
        out.count("race_rejections_in_multi_version_syncs", 1);
        out.nontrivial = Some(fnv(format!("race{i}").as_bytes()));
    }
}

pub fn run(ctx: &Ctx) -> Outcome {
    let mut acc = Acc::default();
    let seed = ctx.seed;
    let only = ctx.replay.as_ref().and_then(|r| r.get("stratum").and_then(|s| s.as_str()).map(|s| s.to_string()));
    let only_idx = ctx.replay.as_ref().and_then(|r| r.get("index").and_then(|s| s.as_u64()));
    let want = |s: &str| only.as_deref().map(|o| o == s).unwrap_or(true);
    let range = |n: u64| -> (u64, u64) { match only_idx { Some(i) => (i, i + 1), None => (0, n) } };
    if want("forward") {
        let (lo, hi) = range(ctx.tier.pick(2000, 100_000));
        run_cases(&mut acc, "forward", hi - lo, |i| {
            let mut out = CaseOut::new();
            forward_case(i + lo, seed, &mut out);
            out
        });
    }
    if want("converse") {
        let (lo, hi) = range(ctx.tier.pick(600, 20_000));
        run_cases(&mut acc, "converse", hi - lo, |i| {
            let mut out = CaseOut::new();
            converse_case(i + lo, seed, &mut out);
            out
        });
    }
    if want("race-disjoint") {
        let (lo, hi) = range(ctx.tier.pick(60, 3000));
        run_cases(&mut acc, "race-disjoint", hi - lo, |i| {
            let mut out = CaseOut::new();
            race_case(i + lo, seed, &mut out);
            out
        });
    }
    if only.is_none() {
        acc.require("race_rejections_in_multi_version_syncs", 5, "no multi-version sync saw a rejected add_version");
        acc.require("segments_validated", 100, "too few history segments seen at the Server boundary");
        acc.require("hand_written_versions_applied", 100, "too few hand-written versions applied");
    }
    Outcome {
        level: "exploration",
        rule: "forward: single-replica flows of valid operations with hostile strings, sub-second timestamps, undo points, deletes of populated tasks and marker-carrying old values, every segment at the Server boundary validated strictly and compared (order and content) with the committed operations; race-disjoint: >1MB pending sets sent as several versions while another writer's version on a different task lands right before the n-th add_version (rejection + retry), concatenated versions compared with the committed order; converse: hand-written documents (field order, whitespace, \\u escapes, 0/3/6/9-digit timestamps, invalid-but-well-formed operations) pre-loaded on the harness server and applied by a fresh replica, compared with the reference model; non-trivial = contains an Update; distinct by operation sequence / document text".into(),
        exhaustive: None,
        acc,
        assumptions: vec![
            "the one-key {\"operations\":[...]} wrapper is treated as normative (the book shows a bare array; every deployed replica uses the wrapper)".into(),
            "hand-written documents stay inside the documented grammar (hyphenated lower-case uuids, Z-suffixed RFC 3339)".into(),
        ],
        extra: Default::default(),
    }
}

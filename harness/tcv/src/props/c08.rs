//! C08 — every server backend implements the version-chain protocol exactly (engine E4).
//!
//! Differential execution against a chain model: sequences of add-version / get-child-version /
//! add-snapshot / get-snapshot calls (right and wrong parents; empty, 1-byte, non-UTF-8, zero and
//! 1.5 MB payloads) are issued one at a time, round-robin/random over 1–3 client handles, on each
//! backend configuration obtained through the public constructors: local on-disk, git local-only,
//! git with a bare remote and several clones, the object-store server (hook: in-memory store), and
//! the HTTP client against the harness' reference sync server. Version ids are chosen by the
//! backend: the model learns them from `Ok(v)` and asserts freshness; everything else is predicted.
//! An end-to-end mode lets whole replicas sync through each backend under the C01 oracle.

use serde_json::json;
use std::collections::{BTreeMap, BTreeSet};
use std::future::Future;
use taskchampion::server::verif::set_random_source;
use taskchampion::server::{AddVersionResult, GetVersionResult};
use taskchampion::{Replica, Server, ServerConfig};
use uuid::Uuid;

use crate::cloud::World;
use crate::exec::block_on;
use crate::httpref::HttpRefServer;
use crate::model::{self, Tasks};
use crate::report::{run_cases, run_cases_threads, Acc, CaseOut, Ctx, Outcome};
use crate::rng::{fnv, Rng};
use crate::world::{concretise, AbsOp, TempDir};

#[derive(Clone, Copy, Debug, PartialEq, Eq)]
pub enum Kind {
    Local,
    GitLocal,
    GitRemote,
    GitRemoteEarlyClones,
    Cloud,
    Http,
}

impl Kind {
    pub fn name(self) -> &'static str {
        match self {
            Kind::Local => "local",
            Kind::GitLocal => "git-local",
            Kind::GitRemote => "git-remote",
            Kind::GitRemoteEarlyClones => "git-remote-opened-on-empty-remote",
            Kind::Cloud => "object-store",
            Kind::Http => "http",
        }
    }
    fn has_snapshots(self) -> bool {
        self != Kind::Local
    }
}

pub struct Backend {
    pub kind: Kind,
    pub handles: Vec<Box<dyn Server>>,
    rt: Option<tokio::runtime::Runtime>,
    pub _dir: Option<TempDir>,
    pub _http: Option<HttpRefServer>,
    pub world: Option<World>,
    pub dir: Option<std::path::PathBuf>,
}

pub struct HttpSnap {
    pub requests: Vec<crate::httpref::Recorded>,
}

impl Backend {
    pub fn _http_state(&self) -> HttpSnap {
        HttpSnap { requests: self._http.as_ref().map(|h| h.state.lock().unwrap().requests.clone()).unwrap_or_default() }
    }
    pub fn drive<F: Future>(&self, f: F) -> F::Output {
        match &self.rt {
            Some(rt) => rt.block_on(f),
            None => block_on(f),
        }
    }
}

pub fn git_env() {
    std::env::set_var("GIT_CONFIG_NOSYSTEM", "1");
    std::env::set_var("GIT_TERMINAL_PROMPT", "0");
    let home = std::path::PathBuf::from(std::env::var("TCV_TMP").unwrap_or_else(|_| "/var/tmp".into())).join("tcv-git-home");
    let _ = std::fs::create_dir_all(&home);
    std::env::set_var("HOME", &home);
    std::env::set_var("GIT_CONFIG_GLOBAL", "/dev/null");
}

pub const SECRET: &[u8] = b"c08-secret";

/// Quick tier on a loaded machine: git call sequences stop issuing further calls once this
/// instant (ms since the epoch; 0 = no limit) has passed. Fewer calls explored, never a verdict.
static GIT_DEADLINE_MS: std::sync::atomic::AtomicU64 = std::sync::atomic::AtomicU64::new(0);

fn git_time_is_up() -> bool {
    let d = GIT_DEADLINE_MS.load(std::sync::atomic::Ordering::Relaxed);
    d != 0 && std::time::SystemTime::now().duration_since(std::time::UNIX_EPOCH).map(|t| t.as_millis() as u64 > d).unwrap_or(false)
}

pub fn open(kind: Kind, n: usize) -> Result<Backend, String> {
    let e = |e: taskchampion::Error| format!("{e:#}");
    match kind {
        Kind::Local => {
            let d = TempDir::new("c08local");
            let mut hs: Vec<Box<dyn Server>> = vec![];
            for _ in 0..n {
                hs.push(block_on(ServerConfig::Local { server_dir: d.path().to_path_buf() }.into_server()).map_err(e)?);
            }
            let p = d.path().to_path_buf();
            Ok(Backend { kind, handles: hs, rt: None, _dir: Some(d), _http: None, world: None, dir: Some(p) })
        }
        Kind::GitLocal => {
            git_env();
            let d = TempDir::new("c08git");
            let cfg = ServerConfig::Git { local_path: d.path().join("repo"), branch: "main".into(), remote: None, local_only: true, encryption_secret: SECRET.to_vec(), git_path: None };
            let h = block_on(cfg.into_server()).map_err(e)?;
            let p = d.path().to_path_buf();
            Ok(Backend { kind, handles: vec![h], rt: None, _dir: Some(d), _http: None, world: None, dir: Some(p) })
        }
        Kind::GitRemote | Kind::GitRemoteEarlyClones => {
            git_env();
            let d = TempDir::new("c08gitr");
            let bare = d.path().join("remote.git");
            let st = std::process::Command::new("git").args(["init", "--bare", "-q", "-b", "main"]).arg(&bare).output().map_err(|e| format!("git init --bare: {e}"))?;
            if !st.status.success() {
                return Err(format!("git init --bare failed: {}", String::from_utf8_lossy(&st.stderr)));
            }
            if kind == Kind::GitRemoteEarlyClones {
                // every clone exists before anything was pushed (as if all replicas had been set up
                // at the same time): each will create its own meta / salt when it is opened
                for i in 0..n {
                    let c = d.path().join(format!("clone{i}"));
                    let st = std::process::Command::new("git").args(["clone", "-q"]).arg(&bare).arg(&c).output().map_err(|e| format!("git clone: {e}"))?;
                    if !st.status.success() {
                        return Err(format!("git clone failed: {}", String::from_utf8_lossy(&st.stderr)));
                    }
                    for (k, v) in [("user.email", "taskchampion@local"), ("user.name", "taskchampion")] {
                        let _ = std::process::Command::new("git").current_dir(&c).args(["config", k, v]).output();
                    }
                }
            }
            let mut hs: Vec<Box<dyn Server>> = vec![];
            for i in 0..n {
                let cfg = ServerConfig::Git { local_path: d.path().join(format!("clone{i}")), branch: "main".into(), remote: Some(bare.to_str().unwrap().to_string()), local_only: false, encryption_secret: SECRET.to_vec(), git_path: None };
                let mut h = block_on(cfg.into_server()).map_err(e)?;
                if kind == Kind::GitRemote && i == 0 {
                    // make sure the remote is initialised (meta pushed) before the other clones open:
                    // the first write pushes the init commit; use a snapshot-free no-op: add + nothing
                    let _ = &mut h;
                }
                hs.push(h);
                if kind == Kind::GitRemote && i == 0 {
                    // push the initial commit so that later clones start from the shared meta
                    let c0 = d.path().join("clone0");
                    let st = std::process::Command::new("git").current_dir(&c0).args(["push", "-q", bare.to_str().unwrap(), "main"]).output().map_err(|e| format!("git push: {e}"))?;
                    if !st.status.success() {
                        return Err(format!("initial push failed: {}", String::from_utf8_lossy(&st.stderr)));
                    }
                }
            }
            let p = d.path().to_path_buf();
            Ok(Backend { kind, handles: hs, rt: None, _dir: Some(d), _http: None, world: None, dir: Some(p) })
        }
        Kind::Cloud => {
            let w = World::new();
            let hs: Vec<Box<dyn Server>> = (0..n).map(|i| Box::new(w.plain(i)) as Box<dyn Server>).collect();
            Ok(Backend { kind, handles: hs, rt: None, _dir: None, _http: None, world: Some(w), dir: None })
        }
        Kind::Http => {
            crate::httpref::clear_proxy_env();
            let srv = HttpRefServer::start()?;
            let rt = tokio::runtime::Builder::new_current_thread().enable_all().build().map_err(|e| e.to_string())?;
            let client_id = Uuid::from_u128(0x4854_5450_0000_4000_8000_0000_0000_0001);
            let mut hs: Vec<Box<dyn Server>> = vec![];
            for _ in 0..n {
                let cfg = ServerConfig::Remote { url: srv.url(), client_id, encryption_secret: SECRET.to_vec() };
                hs.push(rt.block_on(cfg.into_server()).map_err(e)?);
            }
            Ok(Backend { kind, handles: hs, rt: Some(rt), _dir: None, _http: Some(srv), world: None, dir: None })
        }
    }
}

/// For git configurations: the commit log and the salt in `meta` of every clone and of the remote
/// (diagnostics attached to error reports).
fn git_debug_state(b: &Backend) -> String {
    let Some(dir) = &b.dir else { return String::new() };
    let mut out = String::from("; git state:");
    let Ok(rd) = std::fs::read_dir(dir) else { return out };
    let mut names: Vec<_> = rd.flatten().map(|e| e.path()).collect();
    names.sort();
    for p in names {
        let log = std::process::Command::new("git").current_dir(&p).args(["log", "--format=%h:%s", "-6", "main"]).output().map(|o| String::from_utf8_lossy(&o.stdout).replace('\n', "|")).unwrap_or_default();
        let salt = std::fs::read_to_string(p.join("meta")).ok().and_then(|m| serde_json::from_str::<serde_json::Value>(&m).ok()).and_then(|v| v["salt"].as_str().map(|s| s[..8.min(s.len())].to_string())).unwrap_or_default();
        out.push_str(&format!(" [{} salt={salt} log={log}]", p.file_name().unwrap().to_string_lossy()));
    }
    out
}

#[derive(Default)]
pub struct ChainModel {
    pub latest: Option<Uuid>,
    pub child_of: BTreeMap<Uuid, (Uuid, Vec<u8>)>,
    pub ids: BTreeSet<Uuid>,
    pub order: Vec<Uuid>,
    pub snapshots: Vec<(Uuid, Vec<u8>)>,
}

fn payload(rng: &mut Rng, n: u64, big_ok: bool) -> Vec<u8> {
    match rng.below(if big_ok { 12 } else { 11 }) {
        0 => vec![],
        1 => vec![0x41],
        2 => vec![0xff, 0xfe, 0x00, 0x80, 0xc3, 0x28],
        3 => vec![0u8; 64],
        11 => {
            let mut v = format!("big-{n}-").into_bytes();
            v.resize(1_500_000, 0x5a);
            v
        }
        _ => format!("payload-{n}-{}", rng.next_u64()).into_bytes(),
    }
}

/// HTTP client under transport faults: the reference server performs a request and then either
/// drops the connection without answering or answers 500. Whatever the client then reports must
/// be an error or the truth about the chain as it was *before* the call — in particular a version
/// whose parent was the latest is never reported as rejected.
fn http_faults_case(i: u64, seed: u64, out: &mut CaseOut) {
    let mut rng = Rng::derive(seed, "c08-http-faults", i);
    let replay = json!({"stratum": "http-faults", "index": i});
    let mut b = match open(Kind::Http, 1) {
        Ok(b) => b,
        Err(e) => {
            out.inconclusive = Some(e);
            return;
        }
    };
    let state = b._http.as_ref().unwrap().state.clone();
    let fault: std::sync::Arc<std::sync::Mutex<Option<u16>>> = Default::default();
    {
        let f2 = fault.clone();
        state.lock().unwrap().mutator = Some(Box::new(move |_rec, resp| {
            if let Some(code) = f2.lock().unwrap().take() {
                resp.status = code;
                resp.headers.clear();
                resp.body.clear();
            }
        }));
    }
    // server-side truth, read from the reference server's own chain
    let truth = |state: &std::sync::Arc<std::sync::Mutex<crate::httpref::HttpState>>| -> Vec<(Uuid, Uuid)> {
        state.lock().unwrap().clients.values().next().map(|c| c.versions.iter().map(|(v, p, _)| (*v, *p)).collect()).unwrap_or_default()
    };
    let mut trail: Vec<String> = vec![];
    for step in 0..(4 + rng.below(8)) {
        let before = truth(&state);
        let latest = before.last().map(|x| x.0);
        let mode = match rng.below(5) {
            0 | 1 => None,
            2 | 3 => Some(0u16),
            _ => Some(500u16),
        };
        let mode_name = match mode {
            None => "no-fault",
            Some(0) => "reply-lost",
            _ => "status-500-after-effect",
        };
        *fault.lock().unwrap() = mode;
        let mut srv = std::mem::replace(&mut b.handles[0], Box::new(NullServer));
        if rng.chance(3, 5) {
            let stale = rng.chance(1, 4) && before.len() >= 2;
            let parent = if stale { before[rng.below(before.len() - 1)].0 } else { latest.unwrap_or(Uuid::nil()) };
            let bytes = format!("payload-{step}-{}", rng.next_u64()).into_bytes();
            trail.push(format!("add({}{}) [{mode_name}]", model::su(parent), if stale { " STALE" } else { "" }));
            let res = b.drive(srv.add_version(parent, bytes));
            out.count("http_fault_add_calls", 1);
            let after = truth(&state);
            match res {
                Err(_) => out.count("http_fault_calls_reported_as_error", 1),
                Ok((AddVersionResult::Ok(v), _)) => {
                    if stale || after.last().map(|x| x.0) != Some(v) || after.len() != before.len() + 1 {
                        out.violate(format!("http/add_version/ok-not-matching-server@{mode_name}"), format!("client reported Ok({}) but the server's chain is {:?}; trail {trail:?}", model::su(v), after.iter().map(|x| model::su(x.0)).collect::<Vec<_>>()), replay);
                        return;
                    }
                }
                Ok((AddVersionResult::ExpectedParentVersion(x), _)) => {
                    if !stale {
                        out.violate(format!("http/add_version/rejected-although-parent-was-latest@{mode_name}"), format!("add_version(parent = latest = {}) was reported as rejected (naming {}), while the server accepted it: chain grew {} -> {}; trail {trail:?}", model::su(parent), model::su(x), before.len(), after.len()), replay);
                        return;
                    }
                    if Some(x) != latest {
                        out.violate(format!("http/add_version/rejection-names-wrong-version@{mode_name}"), format!("names {} but the latest was {:?}; trail {trail:?}", model::su(x), latest.map(model::su)), replay);
                        return;
                    }
                }
            }
            if mode.is_some() && !stale && after.len() == before.len() + 1 {
                out.count("http_adds_applied_with_reply_lost", 1);
            }
        } else {
            let parent = if before.is_empty() || rng.chance(1, 4) { Uuid::nil() } else { before[rng.below(before.len())].1 };
            trail.push(format!("get({}) [{mode_name}]", model::su(parent)));
            let res = b.drive(srv.get_child_version(parent));
            out.count("http_fault_get_calls", 1);
            let want = before.iter().find(|x| x.1 == parent).map(|x| x.0);
            match (res, want) {
                (Err(_), _) => out.count("http_fault_calls_reported_as_error", 1),
                (Ok(GetVersionResult::NoSuchVersion), None) => {}
                (Ok(GetVersionResult::Version { version_id, parent_version_id, .. }), Some(w)) if version_id == w && parent_version_id == parent => {}
                (Ok(other), w) => {
                    let got = match other {
                        GetVersionResult::NoSuchVersion => "no such version".to_string(),
                        GetVersionResult::Version { version_id, .. } => model::su(version_id),
                    };
                    out.violate(format!("http/get_child_version/wrong-answer@{mode_name}"), format!("child of {}: client says {got}, server has {:?}; trail {trail:?}", model::su(parent), w.map(model::su)), replay);
                    return;
                }
            }
        }
        b.handles[0] = srv;
        *fault.lock().unwrap() = None;
    }
    out.nontrivial = Some(fnv(format!("{trail:?}").as_bytes()));
    if i < 1 {
        out.sample = Some(json!({"trail": trail}));
    }
}

fn calls_case(kind: Kind, i: u64, seed: u64, n_calls: usize, out: &mut CaseOut) {
    let mut rng = Rng::derive(seed, "c08-calls", i * 16 + kind as u64);
    let replay = json!({"stratum": kind.name(), "index": i});
    let n_handles = match kind {
        Kind::GitLocal => 1,
        _ => 1 + rng.below(3),
    };
    if kind == Kind::Cloud {
        set_random_source(Some(Box::new(|| Some(255))));
    }
    let mut b = match open(kind, n_handles) {
        Ok(b) => b,
        Err(e) => {
            // failing to open through the public constructor is itself a finding for the backend
            if e.contains("HARNESS") || e.contains("git init --bare") || e.contains("bind") {
                out.inconclusive = Some(e);
            } else {
                out.violate(format!("{}/open-failed", kind.name()), e, replay);
            }
            return;
        }
    };
    let mut m = ChainModel::default();
    let mut trail: Vec<String> = vec![];
    let sig = |call: &str, rel: &str| format!("{}/{call}/{rel}", kind.name());
    for step in 0..n_calls {
        if matches!(kind, Kind::GitLocal | Kind::GitRemote | Kind::GitRemoteEarlyClones) && git_time_is_up() {
            out.count("git_calls_skipped_for_time", (n_calls - step) as u64);
            break;
        }
        let h = rng.below(b.handles.len());
        let choice = rng.below(100);
        if choice < 45 {
            // add_version with a right or a wrong parent
            let wrong = rng.chance(1, 3) && m.latest.is_some();
            let parent = if wrong {
                match rng.below(3) {
                    0 => Uuid::nil(),
                    1 => rng.uuid(),
                    _ => {
                        // a stale latest
                        let k = rng.below(m.order.len());
                        if Some(m.order[k]) == m.latest { Uuid::nil() } else { m.order[k] }
                    }
                }
            } else {
                match m.latest {
                    Some(l) => l,
                    None => if rng.chance(1, 2) { Uuid::nil() } else { rng.uuid() },
                }
            };
            let wrong = m.latest.is_some() && Some(parent) != m.latest;
            let bytes = payload(&mut rng, step as u64, true);
            trail.push(format!("h{h}.add({}{}, {}B)", model::su(parent), if wrong { " WRONG" } else { "" }, bytes.len()));
            let mut srv = std::mem::replace(&mut b.handles[h], Box::new(NullServer));
            let res = b.drive(srv.add_version(parent, bytes.clone()));
            b.handles[h] = srv;
            out.count("add_version_calls", 1);
            match res {
                Err(e) => {
                    out.violate(sig("add_version", "error"), format!("add_version failed: {e:#}; trail {trail:?}"), replay);
                    return;
                }
                Ok((AddVersionResult::Ok(v), _)) => {
                    if wrong {
                        out.violate(sig("add_version", "accepted-with-wrong-parent"), format!("version accepted although parent {} is not the latest {:?}; trail {trail:?}", model::su(parent), m.latest.map(model::su)), replay);
                        return;
                    }
                    if v.is_nil() || !m.ids.insert(v) {
                        out.violate(sig("add_version", "version-id-not-fresh"), format!("returned id {v}"), replay);
                        return;
                    }
                    m.child_of.insert(parent, (v, bytes));
                    m.latest = Some(v);
                    m.order.push(v);
                    out.count("versions_accepted", 1);
                }
                Ok((AddVersionResult::ExpectedParentVersion(x), _)) => {
                    if !wrong {
                        let class = if Some(x) == m.latest { "spurious-rejection-naming-own-parent" } else { "spurious-rejection" };
                        out.violate(sig("add_version", class), format!("add_version(parent = latest = {}) was rejected, naming {}; trail {trail:?}", model::su(parent), model::su(x)), replay);
                        return;
                    }
                    if Some(x) != m.latest {
                        out.violate(sig("add_version", "rejection-names-wrong-version"), format!("rejection names {} but the latest is {:?}; trail {trail:?}", model::su(x), m.latest.map(model::su)), replay);
                        return;
                    }
                    out.count("versions_rejected", 1);
                }
            }
        } else if choice < 80 {
            let parent = match rng.below(5) {
                0 => Uuid::nil(),
                1 => rng.uuid(),
                2 => m.latest.unwrap_or(Uuid::nil()),
                _ => {
                    if m.order.is_empty() {
                        Uuid::nil()
                    } else {
                        // a parent known to the model (incl. an arbitrary first parent)
                        let keys: Vec<Uuid> = m.child_of.keys().copied().collect();
                        *rng.pick(&keys)
                    }
                }
            };
            trail.push(format!("h{h}.get({})", model::su(parent)));
            let mut srv = std::mem::replace(&mut b.handles[h], Box::new(NullServer));
            let res = b.drive(srv.get_child_version(parent));
            b.handles[h] = srv;
            out.count("get_child_version_calls", 1);
            let want = m.child_of.get(&parent);
            match (res, want) {
                (Err(e), _) => {
                    let dbg = git_debug_state(&b);
                    out.violate(sig("get_child_version", "error"), format!("get_child_version({}) failed: {e:#}; trail {trail:?}{dbg}", model::su(parent)), replay);
                    return;
                }
                (Ok(GetVersionResult::NoSuchVersion), None) => out.count("no_such_version_answers", 1),
                (Ok(GetVersionResult::NoSuchVersion), Some((v, _))) => {
                    out.violate(sig("get_child_version", "accepted-version-not-returned"), format!("child {} of {} exists but 'no such version' was answered; trail {trail:?}", model::su(*v), model::su(parent)), replay);
                    return;
                }
                (Ok(GetVersionResult::Version { version_id, .. }), None) => {
                    out.violate(sig("get_child_version", "phantom-version"), format!("{} returned as child of {} which has no child; trail {trail:?}", model::su(version_id), model::su(parent)), replay);
                    return;
                }
                (Ok(GetVersionResult::Version { version_id, parent_version_id, history_segment }), Some((v, bytes))) => {
                    if version_id != *v || parent_version_id != parent || &history_segment != bytes {
                        out.violate(sig("get_child_version", "not-byte-for-byte"), format!("child of {}: got ({}, {}B) want ({}, {}B); trail {trail:?}", model::su(parent), model::su(version_id), history_segment.len(), model::su(*v), bytes.len()), replay);
                        return;
                    }
                    out.count("versions_returned_intact", 1);
                }
            }
        } else if choice < 90 && kind.has_snapshots() && m.latest.is_some() {
            let v = if rng.chance(2, 3) { m.latest.unwrap() } else { *rng.pick(&m.order) };
            let bytes = payload(&mut rng, 5000 + step as u64, false);
            trail.push(format!("h{h}.add_snapshot({}, {}B)", model::su(v), bytes.len()));
            let mut srv = std::mem::replace(&mut b.handles[h], Box::new(NullServer));
            let res = b.drive(srv.add_snapshot(v, bytes.clone()));
            b.handles[h] = srv;
            out.count("add_snapshot_calls", 1);
            if let Err(e) = res {
                out.violate(sig("add_snapshot", "error"), format!("add_snapshot failed: {e:#}; trail {trail:?}"), replay);
                return;
            }
            m.snapshots.push((v, bytes));
        } else {
            trail.push(format!("h{h}.get_snapshot()"));
            let mut srv = std::mem::replace(&mut b.handles[h], Box::new(NullServer));
            let res = b.drive(srv.get_snapshot());
            b.handles[h] = srv;
            out.count("get_snapshot_calls", 1);
            match res {
                Err(e) => {
                    out.violate(sig("get_snapshot", "error"), format!("get_snapshot failed: {e:#}; trail {trail:?}"), replay);
                    return;
                }
                Ok(None) => {
                    if !m.snapshots.is_empty() {
                        out.violate(sig("get_snapshot", "stored-snapshot-missing"), format!("a snapshot was stored but none is returned; trail {trail:?}"), replay);
                        return;
                    }
                }
                Ok(Some((v, bytes))) => {
                    // object store: any stored snapshot may be served; others keep the last one
                    let ok = if kind == Kind::Cloud { m.snapshots.iter().any(|s| s.0 == v && s.1 == bytes) } else { m.snapshots.last().map(|s| s.0 == v && s.1 == bytes).unwrap_or(false) };
                    if !ok {
                        out.violate(sig("get_snapshot", "not-intact"), format!("get_snapshot returned ({}, {}B) which is not what was stored; trail {trail:?}", model::su(v), bytes.len()), replay);
                        return;
                    }
                    out.count("snapshots_returned_intact", 1);
                }
            }
        }
    }
    if kind == Kind::Cloud {
        set_random_source(None);
    }
    out.count("handles", b.handles.len() as u64);
    if m.order.len() >= 2 {
        out.nontrivial = Some(fnv(format!("{}{trail:?}", kind.name()).as_bytes()));
    }
    if i < 1 {
        out.sample = Some(json!({"backend": kind.name(), "handles": b.handles.len(), "calls": trail.iter().take(25).collect::<Vec<_>>(), "chain_length": m.order.len()}));
    }
}

/// Placeholder while a handle is temporarily taken out of the vector.
struct NullServer;
#[async_trait::async_trait(?Send)]
impl Server for NullServer {
    async fn add_version(&mut self, _: Uuid, _: Vec<u8>) -> Result<(AddVersionResult, taskchampion::server::SnapshotUrgency), taskchampion::Error> {
        unreachable!()
    }
    async fn get_child_version(&mut self, _: Uuid) -> Result<GetVersionResult, taskchampion::Error> {
        unreachable!()
    }
    async fn add_snapshot(&mut self, _: Uuid, _: Vec<u8>) -> Result<(), taskchampion::Error> {
        unreachable!()
    }
    async fn get_snapshot(&mut self) -> Result<Option<(Uuid, Vec<u8>)>, taskchampion::Error> {
        unreachable!()
    }
}

/// Wrapper recording the versions a backend accepted, so that the chain can be replayed.
pub struct RecServer {
    pub inner: Box<dyn Server>,
    pub accepted: std::rc::Rc<std::cell::RefCell<Vec<(Uuid, Uuid, Vec<u8>)>>>,
}

#[async_trait::async_trait(?Send)]
impl Server for RecServer {
    async fn add_version(&mut self, p: Uuid, b: Vec<u8>) -> Result<(AddVersionResult, taskchampion::server::SnapshotUrgency), taskchampion::Error> {
        let r = self.inner.add_version(p, b.clone()).await?;
        if let AddVersionResult::Ok(v) = r.0 {
            self.accepted.borrow_mut().push((v, p, b));
        }
        Ok(r)
    }
    async fn get_child_version(&mut self, p: Uuid) -> Result<GetVersionResult, taskchampion::Error> {
        self.inner.get_child_version(p).await
    }
    async fn add_snapshot(&mut self, v: Uuid, s: Vec<u8>) -> Result<(), taskchampion::Error> {
        self.inner.add_snapshot(v, s).await
    }
    async fn get_snapshot(&mut self) -> Result<Option<(Uuid, Vec<u8>)>, taskchampion::Error> {
        self.inner.get_snapshot().await
    }
}

/// End-to-end: whole replicas syncing through the backend, judged by the chain-replay oracle.
fn e2e_case(kind: Kind, i: u64, seed: u64, out: &mut CaseOut) {
    let mut rng = Rng::derive(seed, "c08-e2e", i * 16 + kind as u64);
    let replay = json!({"stratum": format!("e2e-{}", kind.name()), "index": i});
    let n = if kind == Kind::GitLocal { 1 } else { 2 + rng.below(2) };
    if kind == Kind::Cloud {
        set_random_source(Some(Box::new(|| Some(255))));
    }
    let mut b = match open(kind, n) {
        Ok(b) => b,
        Err(e) => {
            out.violate(format!("{}/open-failed", kind.name()), e, replay);
            return;
        }
    };
    let accepted = std::rc::Rc::new(std::cell::RefCell::new(vec![]));
    let mut servers: Vec<Box<dyn Server>> = b.handles.drain(..).map(|h| Box::new(RecServer { inner: h, accepted: accepted.clone() }) as Box<dyn Server>).collect();
    // replicas: with a single handle (git local-only) all replicas share it
    let n_rep = 2 + rng.below(2);
    let mut reps: Vec<crate::world::Rep> = (0..n_rep)
        .map(|_| Replica::new(crate::obs::ObservedStorage::new(crate::world::DynStorage(Box::new(taskchampion::storage::inmemory::InMemoryStorage::new()))).0))
        .collect();
    let uuids: Vec<Uuid> = (0..2).map(|_| rng.uuid()).collect();
    let mut counter = 0;
    let steps = 6 + rng.below(8);
    for _ in 0..steps {
        if matches!(kind, Kind::GitLocal | Kind::GitRemote | Kind::GitRemoteEarlyClones) && git_time_is_up() {
            out.count("git_calls_skipped_for_time", 1);
            break;
        }
        let r = rng.below(n_rep);
        if rng.chance(1, 2) {
            counter += 1;
            let abs: Vec<AbsOp> = (0..1 + rng.below(3))
                .map(|k| match rng.below(6) {
                    0 => AbsOp::Delete(*rng.pick(&uuids)),
                    _ => AbsOp::Set(*rng.pick(&uuids), format!("p{}", rng.below(2)), format!("r{r}-{counter}-{k}"), crate::world::ts(rng.range(0, 9))),
                })
                .collect();
            let ops = concretise(&mut reps[r], &abs).unwrap_or_default();
            let _ = block_on(reps[r].commit_operations(ops));
        } else {
            let s = r % servers.len();
            let res = {
                let fut = reps[r].sync(&mut servers[s], true);
                b.drive(fut)
            };
            out.count("e2e_syncs", 1);
            if let Err(e) = res {
                let class = if crate::world::is_out_of_sync(&e) { "out-of-sync" } else { "error" };
                out.violate(format!("{}/e2e-sync/{class}", kind.name()), format!("sync through the backend failed: {e:#}"), replay);
                return;
            }
        }
    }
    // quiescence
    for _round in 0..6 {
        let before = accepted.borrow().len();
        for r in 0..n_rep {
            let s = r % servers.len();
            let res = {
                let fut = reps[r].sync(&mut servers[s], true);
                b.drive(fut)
            };
            if let Err(e) = res {
                let class = if crate::world::is_out_of_sync(&e) { "out-of-sync" } else { "error" };
                out.violate(format!("{}/e2e-sync/{class}", kind.name()), format!("sync through the backend failed during quiescence: {e:#}"), replay);
                return;
            }
        }
        if accepted.borrow().len() == before {
            break;
        }
    }
    // chain replay from the recorded accepted versions (must form one chain)
    let acc = accepted.borrow();
    let mut child: BTreeMap<Uuid, (Uuid, Vec<u8>)> = BTreeMap::new();
    for (v, p, bts) in acc.iter() {
        if child.insert(*p, (*v, bts.clone())).is_some() {
            out.violate(format!("{}/e2e/two-accepted-children", kind.name()), format!("parent {p} has two accepted children"), replay);
            return;
        }
    }
    let mut expect = Tasks::new();
    let mut cur = acc.first().map(|f| f.1).unwrap_or(Uuid::nil());
    let mut n_chain = 0;
    while let Some((v, bts)) = child.get(&cur) {
        if let Ok(ops) = model::parse_version(bts) {
            model::apply_all(&mut expect, &ops);
        }
        cur = *v;
        n_chain += 1;
    }
    if n_chain != acc.len() {
        out.violate(format!("{}/e2e/accepted-versions-not-one-chain", kind.name()), format!("{} accepted versions, chain of {}", acc.len(), n_chain), replay);
        return;
    }
    for (k, rep) in reps.iter_mut().enumerate() {
        let got = block_on(model::replica_tasks(rep)).unwrap_or_default();
        if got != expect {
            out.violate(format!("{}/e2e/replica-differs-from-chain-replay", kind.name()), format!("replica {k}: {}", model::diff_tasks(&got, &expect)), replay);
            return;
        }
    }
    if kind == Kind::Cloud {
        set_random_source(None);
    }
    out.count("e2e_histories", 1);
    out.count("e2e_versions", acc.len() as u64);
    if acc.len() >= 2 {
        out.nontrivial = Some(fnv(format!("e2e{}{i}", kind.name()).as_bytes()));
    }
}

pub const KINDS: &[Kind] = &[Kind::Local, Kind::GitLocal, Kind::GitRemote, Kind::GitRemoteEarlyClones, Kind::Cloud, Kind::Http];

pub fn run(ctx: &Ctx) -> Outcome {
    let mut acc = Acc::default();
    let seed = ctx.seed;
    let only = ctx.replay.as_ref().and_then(|r| r.get("stratum").and_then(|s| s.as_str()).map(|s| s.to_string()));
    let only_idx = ctx.replay.as_ref().and_then(|r| r.get("index").and_then(|s| s.as_u64()));
    let want = |s: &str| only.as_deref().map(|o| o == s).unwrap_or(true);
    let range = |n: u64| -> (u64, u64) { match only_idx { Some(i) => (i, i + 1), None => (0, n) } };
    if ctx.tier == crate::report::Tier::Quick && only_idx.is_none() && std::env::var("TCV_NO_GIT_DEADLINE").is_err() {
        let now = std::time::SystemTime::now().duration_since(std::time::UNIX_EPOCH).map(|t| t.as_millis() as u64).unwrap_or(0);
        GIT_DEADLINE_MS.store(now + 300_000, std::sync::atomic::Ordering::Relaxed);
    } else {
        GIT_DEADLINE_MS.store(0, std::sync::atomic::Ordering::Relaxed);
    }
    for kind in KINDS {
        let git = matches!(kind, Kind::GitLocal | Kind::GitRemote | Kind::GitRemoteEarlyClones);
        // budgets are in calls: git is ~50 ms per write
        let (cases, calls) = match (git, ctx.tier) {
            (true, crate::report::Tier::Quick) => (5, 40),
            (true, _) => (120, 120),
            (false, crate::report::Tier::Quick) => (40, 60),
            (false, _) => (1500, 120),
        };
        if want(kind.name()) {
            let (lo, hi) = range(cases);
            let k = *kind;
            let f = |i: u64| {
                let mut out = CaseOut::new();
                calls_case(k, i + lo, seed, calls, &mut out);
                out
            };
            if *kind == Kind::Http {
                run_cases_threads(&mut acc, kind.name(), hi - lo, 4, f);
            } else {
                run_cases(&mut acc, kind.name(), hi - lo, f);
            }
        }
        let e2e = format!("e2e-{}", kind.name());
        if want(&e2e) {
            let n = match (git, ctx.tier) {
                (true, crate::report::Tier::Quick) => 4,
                (true, _) => 60,
                (false, crate::report::Tier::Quick) => 20,
                (false, _) => 300,
            };
            let (lo, hi) = range(n);
            let k = *kind;
            let f = |i: u64| {
                let mut out = CaseOut::new();
                e2e_case(k, i + lo, seed, &mut out);
                out
            };
            if *kind == Kind::Http {
                run_cases_threads(&mut acc, &e2e, hi - lo, 4, f);
            } else {
                run_cases(&mut acc, &e2e, hi - lo, f);
            }
        }
    }
    if want("http-faults") {
        let (lo, hi) = range(ctx.tier.pick(40, 2000));
        run_cases_threads(&mut acc, "http-faults", hi - lo, 4, |i| {
            let mut out = CaseOut::new();
            http_faults_case(i + lo, seed, &mut out);
            out
        });
    }
    if only.is_none() {
        acc.require("http_adds_applied_with_reply_lost", 20, "too few add-version requests whose reply was lost after the server applied them");
        acc.require("versions_accepted", 500, "too few accepted versions");
        acc.require("versions_rejected", 100, "too few rejections");
        acc.require("versions_returned_intact", 300, "too few versions read back");
        acc.require("snapshots_returned_intact", 20, "too few snapshots read back");
        acc.require("e2e_histories", 20, "too few end-to-end histories");
    }
    Outcome {
        level: "exploration",
        rule: "per backend configuration {local (1-3 handles on one directory), git local-only, git + bare remote with 1-3 clones (opened after and — separately — before the remote's first commit), object store (1-3 handles over one in-memory store), HTTP client against the harness reference server (1-3 clients)}: seeded call sequences (add with right/stale/unknown/nil parents, get-child for known/unknown/nil/latest parents, add-snapshot, get-snapshot; payloads empty / 1 byte / non-UTF-8 / zeros / 1.5 MB), one call at a time on a random handle, every result compared with the chain model; plus an HTTP transport-fault stratum (the reference server applies a request, then drops the connection or answers 500; the client's report must be an error or the truth about the chain before the call); plus end-to-end histories of 2-3 replicas syncing through the backend under the chain-replay oracle; non-trivial = chain reached length >= 2; distinct by backend and call trail".into(),
        exhaustive: None,
        acc,
        assumptions: vec![
            "the local server's add_snapshot is unreachable by design and is not called".into(),
            "object store = CloudServer over the hook's in-memory Service, automatic cleanup suppressed; AWS/GCP adapters and the real sync server are out of reach offline".into(),
            "git commits are not aged, so git's own snapshot-driven cleanup never removes a version the model expects".into(),
        ],
        extra: Default::default(),
    }
}

//! C02 — convergence survives racing syncs and rejected versions (engine E2).
//!
//! Two to four real `Replica::sync` futures run under the cooperative scheduler; every server
//! request of every client first parks at a gate, and the decision source (DFS-exhaustive, seeded
//! random with a delay-one-client bias, or a recorded schedule) picks who proceeds. Oracles: every
//! sync call returns Ok against the (correct) harness server; after sequential quiescence the C01
//! chain-replay oracle holds; and at the wire no version pushed during a sync call contains an
//! operation that had already *strictly* lost a conflict against a version delivered earlier in
//! that same call.

use serde_json::json;
use std::future::Future;
use std::pin::Pin;
use taskchampion::Server;
use uuid::Uuid;

use crate::exec::{run_sched, DecisionSource, DfsSource, Gates, RandomSource, ReplaySource};
use crate::model::{self, MOp};
use crate::report::{run_cases, Acc, CaseOut, Ctx, Outcome, Tier};
use crate::rng::{fnv, Rng};
use crate::srv::{ChainRef, Ev};
use crate::world::*;

pub struct RaceResult {
    pub trace_hash: u64,
    pub rejections_max_per_call: u64,
    pub rejections: u64,
    pub steps: usize,
}

/// Build the world by running `prior` sequentially, then race one `sync` per replica in `racers`.
pub fn race(
    tag: &str,
    index: u64,
    n: usize,
    prior: &[Act],
    racers: &[usize],
    source: &mut dyn DecisionSource,
    out: &mut CaseOut,
    extra: serde_json::Value,
) -> Option<RaceResult> {
    let chain = ChainRef::new();
    let mut reps: Vec<R> = (0..n).map(|i| new_replica(i, StoreKind::Mem, &chain)).collect();
    let replay = json!({"stratum": tag, "index": index, "prior": show_history(prior), "racers": racers, "extra": extra});
    for act in prior {
        match act {
            Act::Commit { r, ops } => {
                let conc = concretise(&mut reps[*r].rep, ops).ok()?;
                if crate::exec::block_on(reps[*r].rep.commit_operations(conc)).is_err() {
                    out.inconclusive = Some("prior commit failed".into());
                    return None;
                }
            }
            Act::Sync { r } => {
                if let Err(e) = sync(&mut reps[*r], &chain, false) {
                    out.violate("prior-sync-error", format!("{e:#}"), replay.clone());
                    return None;
                }
            }
        }
    }
    // pending operations of every racer before the raced phase
    let pending: Vec<Vec<MOp>> = reps.iter().map(|r| mops_of(&r.ctl.last().unsynced)).collect();
    let ev0 = chain.0.borrow().events.len();
    let gates = Gates::new(n);
    let mut servers: Vec<Box<dyn Server>> = (0..n).map(|i| chain.gated_client(i, gates.clone())).collect();
    for i in racers {
        chain.begin_sync(*i);
    }
    let results;
    let trace;
    let watchdog;
    {
        let mut futs: Vec<Option<Pin<Box<dyn Future<Output = Result<(), taskchampion::Error>> + '_>>>> = Vec::new();
        for (i, (r, s)) in reps.iter_mut().zip(servers.iter_mut()).enumerate() {
            if racers.contains(&i) {
                futs.push(Some(Box::pin(async move { r.rep.sync(s, false).await })));
            } else {
                futs.push(None);
            }
        }
        let o = run_sched(&gates, futs, source, 4000);
        results = o.results;
        trace = o.trace;
        watchdog = o.watchdog;
    }
    if watchdog {
        out.inconclusive = Some("scheduler watchdog (too many steps)".into());
        return None;
    }
    let sched: Vec<usize> = trace.iter().map(|t| t.0).collect();
    let replay = {
        let mut r = replay;
        r["schedule"] = json!(sched);
        r["requests"] = json!(trace.iter().map(|t| format!("{}:{}", t.0, t.1)).collect::<Vec<_>>());
        r
    };
    // (1) every sync call succeeds
    for i in racers {
        match &results[*i] {
            Some(Ok(())) => {}
            Some(Err(e)) => {
                let class = if is_out_of_sync(e) { "out-of-sync" } else { "other" };
                out.violate(format!("raced-sync-error/{class}"), format!("sync of replica {i} failed during the race: {e:#}"), replay.clone());
                return None;
            }
            None => {
                out.inconclusive = Some("a racer did not finish".into());
                return None;
            }
        }
    }
    // (2) wire: already-lost changes are not sent
    let mut rejections = 0u64;
    let mut max_rej = 0u64;
    {
        let c = chain.0.borrow();
        for i in racers {
            let mut delivered: Vec<MOp> = vec![];
            let mut rej = 0u64;
            for ev in &c.events[ev0..] {
                match ev {
                    Ev::GetChild { client, found: Some(id), .. } if client == i => {
                        if let Some(idx) = c.index_of(*id) {
                            delivered.extend(c.ops_of(idx));
                        }
                    }
                    Ev::Add { client, bytes, accepted, .. } if client == i => {
                        if accepted.is_none() {
                            rej += 1;
                        }
                        let pushed = model::parse_version(bytes).unwrap_or_default();
                        for (j, p) in pending[*i].iter().enumerate() {
                            if let MOp::Update { uuid, prop, value, ts } = p {
                                // Sound "strictly lost" test: the delivered operation must reach `p`
                                // during the rebase, i.e. no earlier pending operation can consume it
                                // (an update of the same property that wins or equals it, or a
                                // create/delete of the task), and `p` must lose against it.
                                // identical operations cannot be told apart on the wire: skip them
                                if pending[*i].iter().filter(|o| *o == p).count() > 1 {
                                    continue;
                                }
                                let recreated = pending[*i].iter().any(|o| matches!(o, MOp::Create(u) | MOp::Delete(u) if u == uuid));
                                let lost_to_update = !recreated
                                    && delivered.iter().any(|d| match d {
                                        MOp::Update { uuid: u2, prop: p2, value: v2, ts: t2 } if u2 == uuid && p2 == prop && t2 > ts && v2 != value => !pending[*i][..j]
                                            .iter()
                                            .any(|q| matches!(q, MOp::Update { uuid: u3, prop: p3, value: v3, ts: t3 } if u3 == uuid && p3 == prop && (t3 >= t2 || v3 == v2))),
                                        _ => false,
                                    });
                                let lost_to_delete = !recreated && delivered.iter().any(|d| matches!(d, MOp::Delete(u2) if u2 == uuid));
                                if (lost_to_update || lost_to_delete) && pushed.contains(p) {
                                    let how = if accepted.is_none() { "rejected" } else { "accepted" };
                                    out.violate(
                                        "lost-change-resent".to_string(),
                                        format!("replica {i} pushed {} in a version ({how}) although it had already lost against a version delivered earlier in the same sync call", p.short()),
                                        replay.clone(),
                                    );
                                    return None;
                                }
                            }
                        }
                    }
                    _ => {}
                }
            }
            rejections += rej;
            max_rej = max_rej.max(rej);
        }
    }
    // (3) invariant right after the race, then sequential quiescence and the C01 oracle
    for i in racers {
        if let Err(e) = check_invariant(&reps[*i], &chain) {
            out.violate("replica-invariant/after-raced-sync".to_string(), e, replay.clone());
            return None;
        }
    }
    drop(servers);
    if let Err(e) = quiesce(&mut reps, &chain, 8) {
        let class = if e.to_lowercase().contains("out of sync") { "out-of-sync" } else { "other" };
        out.violate(format!("quiescence/{class}"), e, replay.clone());
        return None;
    }
    if let Err(e) = check_converged(&mut reps, &chain) {
        out.violate("diverged-after-race".to_string(), e, replay.clone());
        return None;
    }
    let th = fnv(format!("{:?}", trace.iter().map(|t| (t.0, t.1.clone())).collect::<Vec<_>>()).as_bytes());
    out.count("raced_syncs", racers.len() as u64);
    out.count("rejected_add_versions", rejections);
    if max_rej >= 1 {
        out.count("schedules_with_rejection", 1);
    }
    if max_rej >= 2 {
        out.count("schedules_with_two_rejections_in_one_call", 1);
    }
    Some(RaceResult { trace_hash: th, rejections_max_per_call: max_rej, rejections, steps: trace.len() })
}

fn t() -> Uuid {
    Uuid::from_u128(0xC02_0000_0000_4000_8000_0000_0000_0001)
}

/// F4b (Appendix A): the retry re-sent an update that had already lost.
fn corpus_prior() -> (Vec<Act>, Vec<usize>, Vec<usize>) {
    let s = |p: &str, v: &str, at: i64| AbsOp::Set(t(), p.into(), v.into(), ts(at));
    let prior = vec![
        Act::Commit { r: 0, ops: vec![AbsOp::Create(t())] },
        Act::Sync { r: 0 },
        Act::Sync { r: 1 },
        Act::Sync { r: 2 },
        Act::Commit { r: 1, ops: vec![s("p", "B", 100)] },
        Act::Sync { r: 1 },
        Act::Commit { r: 0, ops: vec![s("p", "A", 5), s("q", "A", 5)] },
        Act::Commit { r: 2, ops: vec![s("z", "C", 7)] },
    ];
    // A get(child) , A get(none) | C get, C get(none), C add OK | A add REJECT, A get, A get(none), A add
    (prior, vec![0, 2], vec![0, 0, 2, 2, 2, 0, 0, 0, 0, 0, 2, 2])
}

fn gen_prior(rng: &mut Rng, n: usize, big: bool) -> Vec<Act> {
    // shared synced prefix, then conflicting pending changes on every replica
    let cfg = GenCfg { replicas: n, tasks: 1 + rng.below(2), props: 1 + rng.below(3), actions: 0, max_batch: 3, big_per_mille: if big { 500 } else { 0 }, sync_per_cent: 0 };
    let mut g = Gen::new(rng.clone(), cfg);
    let mut h = vec![];
    let u0 = g.uuids[0];
    h.push(Act::Commit { r: 0, ops: vec![AbsOp::Set(u0, "p0".into(), "0".into(), ts(0))] });
    for r in 0..n {
        h.push(Act::Sync { r });
    }
    // some replicas get ahead of the others
    for _ in 0..rng.below(3) {
        let r = rng.below(n);
        let ops = (0..1 + rng.below(2)).map(|_| g.abs_op(r)).collect();
        h.push(Act::Commit { r, ops });
        h.push(Act::Sync { r });
    }
    // pending (unsynced) changes
    for r in 0..n {
        let k = rng.below(if big { 4 } else { 7 });
        if k > 0 {
            let ops = (0..k).map(|_| g.abs_op(r)).collect();
            h.push(Act::Commit { r, ops });
        }
    }
    *rng = g.rng;
    h
}

pub fn run(ctx: &Ctx) -> Outcome {
    let mut acc = Acc::default();
    let seed = ctx.seed;
    let only = ctx.replay.as_ref().and_then(|r| r.get("stratum").and_then(|s| s.as_str()).map(|s| s.to_string()));
    let only_idx = ctx.replay.as_ref().and_then(|r| r.get("index").and_then(|s| s.as_u64()));
    let replay_sched: Option<Vec<usize>> = ctx.replay.as_ref().and_then(|r| r.get("schedule")).and_then(|s| s.as_array()).map(|a| a.iter().filter_map(|x| x.as_u64().map(|x| x as usize)).collect());
    let want = |s: &str| only.as_deref().map(|o| o == s).unwrap_or(true);
    let range = |n: u64| -> (u64, u64) { match only_idx { Some(i) => (i, i + 1), None => (0, n) } };

    if want("corpus") {
        run_cases(&mut acc, "corpus", 1, |_| {
            let mut out = CaseOut::new();
            let (prior, racers, sched) = corpus_prior();
            let mut src = ReplaySource { clients: sched };
            if let Some(r) = race("corpus", 0, 3, &prior, &racers, &mut src, &mut out, json!({})) {
                out.nontrivial = Some(r.trace_hash);
            }
            out
        });
    }
    let mut exhaustive_all = true;
    if want("dfs-2") {
        // exhaustive interleavings of 2 racing replicas over several prior histories
        let (lo, hi) = range(ctx.tier.pick(50, 400));
        let budget = ctx.tier.pick(3000, 40_000);
        let exhausted = std::sync::atomic::AtomicU64::new(0);
        run_cases(&mut acc, "dfs-2", hi - lo, |i| {
            let i = i + lo;
            let mut rng = Rng::derive(seed, "c02-dfs2", i);
            let n = 2 + rng.below(2); // a third replica may have pushed versions before the race
            let prior = gen_prior(&mut rng, n, false);
            let mut out = CaseOut::new();
            out.evaluations = 0;
            if let Some(s) = &replay_sched {
                let mut src = ReplaySource { clients: s.clone() };
                race("dfs-2", i, n, &prior, &[0, 1], &mut src, &mut out, json!({}));
                return out;
            }
            let mut dfs = DfsSource::new();
            let mut runs = 0u64;
            let mut hashes = std::collections::HashSet::new();
            let mut done = false;
            loop {
                dfs.begin_run();
                out.evaluations += 1;
                runs += 1;
                match race("dfs-2", i, n, &prior, &[0, 1], &mut dfs, &mut out, json!({"dfs_run": runs})) {
                    Some(r) => {
                        if r.rejections > 0 {
                            hashes.insert(r.trace_hash);
                        }
                    }
                    None => break,
                }
                if !dfs.advance() {
                    done = true;
                    break;
                }
                if runs >= budget {
                    break;
                }
            }
            if done {
                exhausted.fetch_add(1, std::sync::atomic::Ordering::Relaxed);
                out.count("prior_histories_exhausted", 1);
            } else if out.violations.is_empty() {
                out.count("prior_histories_budget_cut", 1);
            }
            out.count("schedules_run", runs);
            // each distinct schedule with a rejection counts as a distinct non-trivial case
            out.count("distinct_schedules_with_rejection", hashes.len() as u64);
            out.nontrivial = hashes.iter().next().copied();
            // fold further distinct hashes into counters (Acc keeps one hash per case)
            if i < 2 {
                out.sample = Some(json!({"prior": show_history(&prior), "schedules_enumerated": runs, "exhausted": done, "distinct_schedules_with_rejection": hashes.len()}));
            }
            out
        });
        let _ = &mut exhaustive_all;
        if only.is_none() {
            let ex = acc.counter("prior_histories_exhausted");
            let cut = acc.counter("prior_histories_budget_cut");
            acc.exhaustive_parts.push(format!("dfs-2: all request-level interleavings of two racing sync calls enumerated for {ex} prior histories ({cut} cut by the per-history budget of {budget} schedules)"));
        }
    }
    if want("random") {
        let (lo, hi) = range(ctx.tier.pick(20_000, 300_000));
        run_cases(&mut acc, "random", hi - lo, |i| {
            let i = i + lo;
            let mut rng = Rng::derive(seed, "c02-random", i);
            let n = 3 + rng.below(2);
            let prior = gen_prior(&mut rng, n, false);
            let racers: Vec<usize> = (0..n).collect();
            let mut out = CaseOut::new();
            let mut src: Box<dyn DecisionSource> = match &replay_sched {
                Some(s) => Box::new(ReplaySource { clients: s.clone() }),
                None => {
                    let delay = if rng.chance(1, 2) { Some(rng.below(n)) } else { None };
                    Box::new(RandomSource { rng: Rng::derive(seed, "c02-random-sched", i), delay_client: delay })
                }
            };
            if let Some(r) = race("random", i, n, &prior, &racers, src.as_mut(), &mut out, json!({})) {
                if r.rejections > 0 {
                    out.nontrivial = Some(r.trace_hash);
                }
                if i < 2 {
                    out.sample = Some(json!({"replicas": n, "prior": show_history(&prior), "steps": r.steps, "rejections": r.rejections, "max_rejections_in_one_call": r.rejections_max_per_call}));
                }
            }
            out
        });
    }
    if want("random-big") {
        let (lo, hi) = range(ctx.tier.pick(200, 3000));
        run_cases(&mut acc, "random-big", hi - lo, |i| {
            let i = i + lo;
            let mut rng = Rng::derive(seed, "c02-big", i);
            let n = 2 + rng.below(2);
            let prior = gen_prior(&mut rng, n, true);
            let racers: Vec<usize> = (0..n).collect();
            let mut out = CaseOut::new();
            let mut src: Box<dyn DecisionSource> = match &replay_sched {
                Some(s) => Box::new(ReplaySource { clients: s.clone() }),
                None => Box::new(RandomSource { rng: Rng::derive(seed, "c02-big-sched", i), delay_client: Some(rng.below(n)) }),
            };
            if let Some(r) = race("random-big", i, n, &prior, &racers, src.as_mut(), &mut out, json!({})) {
                if r.rejections > 0 {
                    out.nontrivial = Some(r.trace_hash);
                }
            }
            out
        });
    }
    if want("multi-batch-order") {
        // directed: the racing replica's pending list needs several versions AND its order
        // matters across the batch boundary (a task created in the first batch and updated in a
        // later one; one property set twice with the later operation carrying the earlier
        // timestamp); the other replica's small version lands somewhere in between
        let (lo, hi) = range(ctx.tier.pick(120, 2000));
        run_cases(&mut acc, "multi-batch-order", hi - lo, |i| {
            let i = i + lo;
            let mut rng = Rng::derive(seed, "c02-mbo", i);
            let bigv = |tag: &str, rng: &mut Rng| -> String {
                let mut v = format!("{tag}-");
                v.extend(std::iter::repeat('y').take(400_000 + rng.below(400_000)));
                v
            };
            let u0 = rng.uuid();
            let tn = rng.uuid();
            let u1 = rng.uuid();
            let mut prior = vec![Act::Commit { r: 0, ops: vec![AbsOp::Set(u0, "p0".into(), "0".into(), ts(0))] }, Act::Sync { r: 0 }, Act::Sync { r: 1 }];
            let mut ops = vec![];
            match i % 3 {
                0 => {
                    ops.push(AbsOp::Set(tn, "a".into(), "small".into(), ts(10)));
                    for (k, prop) in ["b", "c", "d"].iter().enumerate().take(2 + rng.below(2)) {
                        ops.push(AbsOp::Set(tn, prop.to_string(), bigv(&format!("B{k}"), &mut rng), ts(11 + k as i64)));
                    }
                    ops.push(AbsOp::Set(tn, "e".into(), "tail".into(), ts(20)));
                }
                1 => {
                    ops.push(AbsOp::Set(u0, "p".into(), bigv("first", &mut rng), ts(20)));
                    ops.push(AbsOp::Set(u0, "q".into(), bigv("filler", &mut rng), ts(20)));
                    ops.push(AbsOp::Set(u0, "p".into(), bigv("second-with-earlier-timestamp", &mut rng), ts(10)));
                    ops.push(AbsOp::Set(u0, "r".into(), "tail".into(), ts(5)));
                }
                _ => {
                    for k in 0..(3 + rng.below(4)) {
                        let t = if rng.chance(1, 2) { tn } else { u0 };
                        let prop = format!("p{}", rng.below(2));
                        let v = if rng.chance(3, 5) { bigv(&format!("M{k}"), &mut rng) } else { format!("s{k}") };
                        ops.push(match rng.below(8) {
                            0 => AbsOp::Delete(t),
                            1 => AbsOp::Remove(t, prop, ts(rng.range(0, 30))),
                            _ => AbsOp::Set(t, prop, v, ts(rng.range(0, 30))),
                        });
                    }
                }
            }
            prior.push(Act::Commit { r: 0, ops });
            prior.push(Act::Commit { r: 1, ops: vec![if rng.chance(1, 2) { AbsOp::Set(u1, "x".into(), "other".into(), ts(15)) } else { AbsOp::Set(u0, "other".into(), "x".into(), ts(15)) }] });
            let mut out = CaseOut::new();
            for sched in 0..4u64 {
                let mut src: Box<dyn DecisionSource> = match &replay_sched {
                    Some(s) => Box::new(ReplaySource { clients: s.clone() }),
                    None => Box::new(RandomSource { rng: Rng::derive(seed, "c02-mbo-sched", i * 16 + sched), delay_client: Some(0) }),
                };
                if let Some(r) = race("multi-batch-order", i, 2, &prior, &[0, 1], src.as_mut(), &mut out, json!({"sched": sched})) {
                    if r.rejections > 0 {
                        out.nontrivial = Some(r.trace_hash);
                        out.count("multi_batch_order_races_with_rejection", 1);
                    }
                }
                if !out.violations.is_empty() || replay_sched.is_some() {
                    break;
                }
            }
            out
        });
    }
    if only.is_none() {
        acc.require("multi_batch_order_races_with_rejection", 10, "too few multi-batch races in which a version was rejected");
        acc.require("schedules_with_rejection", 100, "too few schedules in which an add_version was rejected");
        acc.require("schedules_with_two_rejections_in_one_call", 1, "no sync call was rejected twice");
    }
    let mut extra = serde_json::Map::new();
    extra.insert("distinct_schedules_with_rejection_in_dfs".into(), json!(acc.counter("distinct_schedules_with_rejection")));
    let _ = Tier::Quick;
    Outcome {
        level: "exploration",
        rule: "prior history (shared synced prefix, some replicas ahead, 0-6 conflicting pending operations per replica; big-value stratum with several batches; directed multi-batch-order stratum where the order of the pending list matters across the batch boundary) then one raced phase of 2-4 concurrent Replica::sync calls under the request-level scheduler: DFS-exhaustive for two racers over many prior histories, seeded random (half with a delay-one-client bias) for 3-4 racers, plus the F4b schedule as corpus; then sequential quiescence; non-trivial = a schedule in which at least one add_version was rejected; distinct by hash of the (client, request) sequence (for DFS strata one representative per prior history is counted in distinct_nontrivial; the full number is in distinct_schedules_with_rejection_in_dfs)".into(),
        exhaustive: None,
        acc,
        assumptions: vec![
            "interleavings at the granularity of Server trait requests; each request executes atomically against the harness chain".into(),
            "'already lost' is asserted only for strict losses (earlier timestamp and different value, or delivered Delete without local re-creation)".into(),
        ],
        extra,
    }
}

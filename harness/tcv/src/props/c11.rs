//! C11 — a failure inside a server's add-version leaves the backend usable (engine E3).
//!
//! One replica's sync is interrupted at an internal step of the backend:
//!   * local server: the three hook failpoints between its SQL statements, as an error
//!     (in-process) and as a process abort (child process);
//!   * object store: every object-store request of the sync x {fail before, perform then fail,
//!     drop the client};
//!   * git (local-only and with a bare remote shared by two clones): every git invocation of the
//!     sync x {fail before running, run then fail} in-process and x {kill the process before,
//!     run then kill the process} in a child process, plus "remote unreachable from invocation k";
//!     injected through a wrapper script passed as `git_path` (no hook needed).
//! Then the backend is reopened and the history continues: the interrupted replica retries (bounded:
//! success within two attempts), other replicas edit and sync, everybody quiesces. Audit: the
//! chain walked through a fresh handle is one chain containing every version any client was told
//! was accepted, every replica equals its replay, and the backend still answers per the protocol.

use serde_json::json;
use std::collections::BTreeMap;
use std::future::Future;
use std::pin::Pin;
use std::process::{Command, Stdio};
use taskchampion::server::verif::{clear_failpoints, failpoint_hits, set_failpoint, set_random_source, FailAction};
use taskchampion::server::{AddVersionResult, GetVersionResult};
use taskchampion::storage::AccessMode;
use taskchampion::{Replica, Server, ServerConfig, SqliteStorage};
use uuid::Uuid;

use crate::cloud::World;
use crate::exec::{block_on, run_sched, Choice, DecisionSource, Gates};
use crate::model::{self, Tasks};
use crate::obs::ObservedStorage;
use crate::props::c08::{git_env, RecServer};
use crate::report::{run_cases, Acc, CaseOut, Ctx, Outcome};
use crate::rng::fnv;
use crate::world::{concretise, ts, AbsOp, DynStorage, Rep, TempDir};

type Accepted = std::rc::Rc<std::cell::RefCell<Vec<(Uuid, Uuid, Vec<u8>)>>>;

fn task() -> Uuid {
    Uuid::from_u128(0xC11_0000_0000_4000_8000_0000_0000_0001)
}

fn mem_rep() -> Rep {
    Replica::new(ObservedStorage::new(DynStorage(Box::new(taskchampion::storage::inmemory::InMemoryStorage::new()))).0)
}

fn sqlite_rep(dir: &std::path::Path) -> Rep {
    let st = block_on(SqliteStorage::new(dir, AccessMode::ReadWrite, true)).expect("open replica");
    Replica::new(ObservedStorage::new(DynStorage(Box::new(st))).0)
}

fn commit(rep: &mut Rep, abs: &[AbsOp]) -> Result<(), String> {
    let ops = concretise(rep, abs)?;
    block_on(rep.commit_operations(ops)).map_err(|e| e.to_string())
}

fn rec(inner: Box<dyn Server>, accepted: &Accepted) -> Box<dyn Server> {
    Box::new(RecServer { inner, accepted: accepted.clone() })
}

/// An environment knows how to open handle `i` of its backend.
pub struct Env {
    /// the backend legitimately trims old history (object store with aged versions and snapshots):
    /// the audit then goes through a fresh replica instead of walking the chain from nil
    pub trimmed: bool,
    /// continuation order: the *other* replica edits and synchronizes before the interrupted one is
    /// reopened and retries (C11 quantifies over "arbitrary further syncs by the same and other replicas")
    pub other_first: bool,
    pub name: String,
    pub open: Box<dyn Fn(usize) -> Result<Box<dyn Server>, String>>,
    /// a handle for the final audit (fresh clone / fresh connection)
    pub open_audit: Box<dyn Fn() -> Result<Box<dyn Server>, String>>,
    pub dir: Option<TempDir>,
}

/// Steps before the target sync. Replica A is `a`, replica B is in-memory.
fn prior(env: &Env, a: &mut Rep, b: &mut Rep, accepted: &Accepted) -> Result<(), String> {
    let e = |e: taskchampion::Error| format!("prior sync: {e:#}");
    let mut sa = rec((env.open)(0)?, accepted);
    let mut sb = rec((env.open)(1)?, accepted);
    commit(a, &[AbsOp::Set(task(), "p".into(), "A0".into(), ts(1))])?;
    block_on(a.sync(&mut sa, true)).map_err(e)?;
    block_on(b.sync(&mut sb, true)).map_err(e)?;
    commit(b, &[AbsOp::Set(task(), "q".into(), "B1".into(), ts(2))])?;
    block_on(b.sync(&mut sb, true)).map_err(e)?;
    commit(a, &[AbsOp::Set(task(), "r".into(), "A2".into(), ts(3)), AbsOp::Set(task(), "q".into(), "A2q".into(), ts(1))])?;
    Ok(())
}

/// After the fault: reopen, retry, continue, quiesce, audit.
fn continue_and_audit(env: &Env, a: &mut Rep, b: &mut Rep, accepted: &Accepted, out: &mut CaseOut, replay: &serde_json::Value, what: &str) -> bool {
    let sig = |s: &str| format!("{}/{s}", env.name);
    let mut sb = match (env.open)(1) {
        Ok(s) => rec(s, accepted),
        Err(e) => {
            out.violate(sig("reopen-failed"), format!("after {what}: backend cannot be reopened by the other client: {e}"), replay.clone());
            return false;
        }
    };
    if env.other_first {
        // the other replica goes on before the interrupted one comes back
        if let Err(e) = commit(b, &[AbsOp::Set(task(), "s0".into(), "B-first".into(), ts(4))]) {
            out.inconclusive = Some(e);
            return false;
        }
        let mut done = false;
        let mut last = String::new();
        for _ in 0..2 {
            match block_on(b.sync(&mut sb, true)) {
                Ok(()) => {
                    done = true;
                    break;
                }
                Err(e) => last = format!("{e:#}"),
            }
        }
        if !done {
            let class = if last.to_lowercase().contains("out of sync") { "out-of-sync" } else { "error" };
            out.violate(sig(&format!("other-replica-cannot-sync/{class}")), format!("after {what}: the other replica's sync (before the interrupted one retried) fails: {last}"), replay.clone());
            return false;
        }
        out.count("continued_with_the_other_replica_first", 1);
    }
    // only now is the interrupted client's handle reopened (in the other-first order the other
    // replica's version is already there when it comes back)
    let mut sa = match (env.open)(0) {
        Ok(s) => rec(s, accepted),
        Err(e) => {
            out.violate(sig("reopen-failed"), format!("after {what}: backend cannot be reopened: {e}"), replay.clone());
            return false;
        }
    };
    // the interrupted replica retries: success within two attempts once faults have stopped
    let mut ok = false;
    let mut last = String::new();
    for _ in 0..2 {
        match block_on(a.sync(&mut sa, true)) {
            Ok(()) => {
                ok = true;
                break;
            }
            Err(e) => last = format!("{e:#}"),
        }
    }
    if !ok {
        let class = if last.to_lowercase().contains("out of sync") { "out-of-sync" } else { "error" };
        out.violate(sig(&format!("interrupted-replica-cannot-sync/{class}")), format!("after {what}: the interrupted replica's sync still fails after 2 attempts: {last}"), replay.clone());
        return false;
    }
    // the others go on
    if let Err(e) = commit(b, &[AbsOp::Set(task(), "s".into(), "B3".into(), ts(4))]) {
        out.inconclusive = Some(e);
        return false;
    }
    for round in 0..4 {
        let before = accepted.borrow().len();
        for (who, rep, srv) in [("B", &mut *b, &mut sb), ("A", &mut *a, &mut sa)] {
            let mut done = false;
            let mut last = String::new();
            for _ in 0..2 {
                match block_on(rep.sync(srv, true)) {
                    Ok(()) => {
                        done = true;
                        break;
                    }
                    Err(e) => last = format!("{e:#}"),
                }
            }
            if !done {
                let class = if last.to_lowercase().contains("out of sync") { "out-of-sync" } else { "error" };
                out.violate(sig(&format!("later-sync-fails/{class}")), format!("after {what}: sync of replica {who} fails in round {round}: {last}"), replay.clone());
                return false;
            }
        }
        if accepted.borrow().len() == before && round > 0 {
            break;
        }
    }
    // audit through a fresh handle
    let mut h = match (env.open_audit)() {
        Ok(h) => h,
        Err(e) => {
            out.violate(sig("audit-open-failed"), e, replay.clone());
            return false;
        }
    };
    if env.trimmed {
        let ta = block_on(model::replica_tasks(a)).unwrap_or_default();
        let tb = block_on(model::replica_tasks(b)).unwrap_or_default();
        if ta != tb {
            out.violate(sig("replicas-do-not-converge"), format!("after {what}: replicas A and B differ: {}", model::diff_tasks(&ta, &tb)), replay.clone());
            return false;
        }
        // what a newcomer gets: the snapshot the server hands out plus the versions after it
        let mut fresh = mem_rep();
        if let Err(e) = block_on(fresh.sync(&mut h, true)) {
            out.violate(sig("fresh-replica-cannot-sync"), format!("after {what}: {e:#}"), replay.clone());
            return false;
        }
        let tf = block_on(model::replica_tasks(&mut fresh)).unwrap_or_default();
        if tf != ta {
            out.violate(sig("fresh-replica-differs"), format!("after {what}: a new replica ends up with {} where the others have {}", model::show_tasks(&tf), model::show_tasks(&ta)), replay.clone());
            return false;
        }
        // and it can take part: one change of its own reaches the others
        if commit(&mut fresh, &[AbsOp::Set(task(), "fresh".into(), "F".into(), ts(9))]).is_err() || block_on(fresh.sync(&mut h, true)).is_err() {
            out.violate(sig("fresh-replica-cannot-contribute"), format!("after {what}: a new replica's first change cannot be synchronized"), replay.clone());
            return false;
        }
        let lx;
        match block_on(h.add_version(Uuid::from_u128(0xBAD), b"{\"operations\":[]}".to_vec())) {
            Ok((AddVersionResult::ExpectedParentVersion(x), _)) => lx = x,
            other => {
                out.violate(sig("protocol/wrong-parent-not-rejected"), format!("after {what}: add_version(unknown parent) = {:?}", other.map(|r| r.0).map_err(|e| e.to_string())), replay.clone());
                return false;
            }
        }
        match block_on(h.get_child_version(lx)) {
            Ok(GetVersionResult::NoSuchVersion) => {}
            other => {
                out.violate(sig("protocol/latest-has-child"), format!("after {what}: get_child_version(latest) = {:?}", other.map(|_| "a version").map_err(|e| e.to_string())), replay.clone());
                return false;
            }
        }
        out.count("continued_histories_audited", 1);
        out.count("trimmed_histories_audited_through_a_fresh_replica", 1);
        return true;
    }
    let mut chain: Vec<(Uuid, Uuid, Vec<u8>)> = vec![];
    let mut cur = Uuid::nil();
    for _ in 0..200 {
        match block_on(h.get_child_version(cur)) {
            Ok(GetVersionResult::NoSuchVersion) => break,
            Ok(GetVersionResult::Version { version_id, parent_version_id, history_segment }) => {
                chain.push((version_id, parent_version_id, history_segment));
                cur = version_id;
            }
            Err(e) => {
                out.violate(sig("audit-walk-error"), format!("after {what}: walking the chain fails at {cur}: {e:#}"), replay.clone());
                return false;
            }
        }
    }
    let ids: BTreeMap<Uuid, &Vec<u8>> = chain.iter().map(|c| (c.0, &c.2)).collect();
    for (v, _, bytes) in accepted.borrow().iter() {
        match ids.get(v) {
            Some(b2) if *b2 == bytes => {}
            Some(_) => {
                out.violate(sig("accepted-version-altered"), format!("after {what}: version {v} is on the chain with other bytes"), replay.clone());
                return false;
            }
            None => {
                out.violate(sig("accepted-version-not-on-chain"), format!("after {what}: a client was told version {v} was accepted but the chain from nil ({} versions) does not contain it", chain.len()), replay.clone());
                return false;
            }
        }
    }
    let mut expect = Tasks::new();
    for (v, _, bytes) in &chain {
        match model::parse_version(bytes) {
            Ok(ops) => model::apply_all(&mut expect, &ops),
            Err(e) => {
                out.violate(sig("half-visible-version"), format!("after {what}: version {v} on the chain is not a complete version: {e}"), replay.clone());
                return false;
            }
        }
    }
    for (who, rep) in [("A", &mut *a), ("B", &mut *b)] {
        let got = block_on(model::replica_tasks(rep)).unwrap_or_default();
        if got != expect {
            out.violate(sig("replicas-do-not-converge"), format!("after {what}: replica {who} differs from the replay of the chain: {}", model::diff_tasks(&got, &expect)), replay.clone());
            return false;
        }
    }
    // protocol still answered correctly
    match block_on(h.get_child_version(cur)) {
        Ok(GetVersionResult::NoSuchVersion) => {}
        other => {
            out.violate(sig("protocol/latest-has-child"), format!("after {what}: get_child_version(latest) = {:?}", other.map(|_| "a version").map_err(|e| e.to_string())), replay.clone());
            return false;
        }
    }
    match block_on(h.add_version(Uuid::from_u128(0xBAD), b"{\"operations\":[]}".to_vec())) {
        Ok((AddVersionResult::ExpectedParentVersion(x), _)) if x == cur => {}
        other => {
            out.violate(sig("protocol/wrong-parent-not-rejected"), format!("after {what}: add_version(unknown parent) = {:?}, latest is {cur}", other.map(|r| r.0).map_err(|e| e.to_string())), replay.clone());
            return false;
        }
    }
    out.count("continued_histories_audited", 1);
    true
}

// ---- local server -------------------------------------------------------------------------------

fn local_env(dir: TempDir) -> Env {
    let p = dir.path().join("server");
    std::fs::create_dir_all(&p).unwrap();
    let p2 = p.clone();
    Env {
        trimmed: false,
        other_first: false,
        name: "local".into(),
        open: Box::new(move |_| block_on(ServerConfig::Local { server_dir: p.clone() }.into_server()).map_err(|e| e.to_string())),
        open_audit: Box::new(move || block_on(ServerConfig::Local { server_dir: p2.clone() }.into_server()).map_err(|e| e.to_string())),
        dir: Some(dir),
    }
}

const FAILPOINTS: &[&str] = &["local.add.after_check", "local.add.after_insert", "local.add.after_latest"];

fn local_db_fork(dir: &std::path::Path) -> Option<String> {
    let con = rusqlite::Connection::open(dir.join("server").join("taskchampion-local-sync-server.sqlite3")).ok()?;
    let n: i64 = con.query_row("SELECT count(*) FROM (SELECT parent_version_id FROM versions GROUP BY parent_version_id HAVING count(*) > 1)", [], |r| r.get(0)).ok()?;
    if n > 0 {
        Some(format!("{n} parent(s) with two children in the versions table"))
    } else {
        None
    }
}

fn local_case(i: u64, out: &mut CaseOut) {
    let fp = FAILPOINTS[(i % 3) as usize];
    let abort = (i / 3) % 2 == 1;
    let other_first = i >= 6;
    let replay = json!({"stratum": "local", "index": i, "failpoint": fp, "kind": if abort { "abort" } else { "error" }, "other_first": other_first});
    let dir = TempDir::new("c11local");
    let rdir = dir.path().join("replicaA");
    let mut env = local_env(dir);
    env.other_first = other_first;
    let accepted: Accepted = Default::default();
    let mut a = sqlite_rep(&rdir);
    let mut b = mem_rep();
    if let Err(e) = prior(&env, &mut a, &mut b, &accepted) {
        out.violate("local/prior-failed".to_string(), e, replay);
        return;
    }
    let what = format!("{} at {fp}", if abort { "process abort" } else { "error" });
    if abort {
        drop(a);
        let spec = json!({"backend": "local", "server_dir": env.dir.as_ref().unwrap().path().join("server"), "replica_dir": rdir, "failpoint": fp});
        let sf = env.dir.as_ref().unwrap().path().join("spec.json");
        std::fs::write(&sf, spec.to_string()).unwrap();
        let st = Command::new(std::env::current_exe().unwrap()).args(["worker", "c11", sf.to_str().unwrap()]).stdout(Stdio::null()).stderr(Stdio::null()).status();
        match st {
            Ok(s) if s.success() => {
                out.inconclusive = Some(format!("failpoint {fp} was not reached in the child"));
                return;
            }
            Ok(_) => out.count("child_aborts", 1),
            Err(e) => {
                out.inconclusive = Some(format!("spawn: {e}"));
                return;
            }
        }
        a = sqlite_rep(&rdir);
    } else {
        clear_failpoints();
        set_failpoint(fp, 1, FailAction::Err);
        let mut sa = rec((env.open)(0).unwrap(), &accepted);
        let r = block_on(a.sync(&mut sa, true));
        let hits = failpoint_hits();
        clear_failpoints();
        if !hits.iter().any(|(n, c)| n == fp && *c > 0) {
            out.inconclusive = Some(format!("failpoint {fp} never hit"));
            return;
        }
        if r.is_ok() && fp != "local.add.after_latest" {
            out.count("sync_ok_despite_failpoint", 1);
        }
        out.count("failpoint_errors", 1);
        drop(sa);
    }
    if !continue_and_audit(&env, &mut a, &mut b, &accepted, out, &replay, &what) {
        return;
    }
    if let Some(f) = local_db_fork(env.dir.as_ref().unwrap().path()) {
        out.violate("local/forked-chain-in-database".to_string(), format!("after {what}: {f}"), replay);
        return;
    }
    out.nontrivial = Some(fnv(format!("local{i}").as_bytes()));
    out.sample = Some(json!({"backend": "local", "failpoint": fp, "kind": if abort { "abort" } else { "error" }, "accepted_versions": accepted.borrow().len()}));
}

// ---- object store ---------------------------------------------------------------------------------

struct FaultAt {
    k: usize,
    decision: u8,
    drop_client: bool,
    hit: bool,
}

impl DecisionSource for FaultAt {
    fn choose(&mut self, step: usize, _enabled: &[(usize, String)]) -> Choice {
        if step == self.k {
            self.hit = true;
            Choice { which: 0, decision: self.decision, drop_client: self.drop_client }
        } else {
            Choice { which: 0, decision: 0, drop_client: false }
        }
    }
}

fn cloud_case(i: u64, aged: bool, n_requests: &std::sync::atomic::AtomicUsize, out: &mut CaseOut) {
    // i = (other_first * 40 + k) * 3 + kind
    let other_first = i >= 120;
    let k = ((i % 120) / 3) as usize;
    let kind = i % 3;
    let (decision, drop_client, kname) = match kind {
        0 => (1u8, false, "fail-before"),
        1 => (2u8, false, "perform-then-fail"),
        _ => (0u8, true, "client-dropped"),
    };
    let replay = json!({"stratum": if aged { "object-store-aged" } else { "object-store" }, "index": i, "request": k, "kind": kname, "other_first": other_first});
    set_random_source(Some(Box::new(|| Some(200))));
    let world = std::rc::Rc::new(World::new());
    let (w1, w2) = (world.clone(), world.clone());
    let env = Env {
        trimmed: aged,
        other_first,
        name: "object-store".into(),
        open: Box::new(move |c| Ok(Box::new(w1.plain(c)) as Box<dyn Server>)),
        open_audit: Box::new(move || Ok(Box::new(w2.plain(77)) as Box<dyn Server>)),
        dir: None,
    };
    let accepted: Accepted = Default::default();
    let mut a = mem_rep();
    let mut b = mem_rep();
    let pr = if aged { prior_aged(&env, &world, &mut a, &mut b, &accepted) } else { prior(&env, &mut a, &mut b, &accepted) };
    if let Err(e) = pr {
        out.violate("object-store/prior-failed".to_string(), e, replay);
        set_random_source(None);
        return;
    }
    if aged {
        // every draw is 0 from here on: the add_version of the target sync runs the cleanup
        // (expired versions, a superseded snapshot) and asks for a snapshot
        set_random_source(Some(Box::new(|| Some(0))));
    }
    // the target sync runs as the only client under the scheduler, with a fault at request k
    let gates = Gates::new(1);
    let log0 = world.store.log_len();
    let mut srv: Box<dyn Server> = rec(Box::new(world.gated(0, &gates, 2)), &accepted);
    let mut src = FaultAt { k, decision, drop_client, hit: false };
    let steps;
    {
        let fut: Pin<Box<dyn Future<Output = Result<(), taskchampion::Error>> + '_>> = Box::pin(async { a.sync(&mut srv, true).await });
        let o = run_sched(&gates, vec![Some(fut)], &mut src, 500);
        steps = o.steps;
    }
    n_requests.fetch_max(steps, std::sync::atomic::Ordering::Relaxed);
    drop(srv);
    if !src.hit {
        // k beyond the number of requests of this sync: nothing injected
        out.count("fault_beyond_last_request", 1);
        out.evaluations = 0;
        set_random_source(None);
        return;
    }
    out.count("object_store_faults", 1);
    if aged {
        let dels = world.store.log()[log0..].iter().filter(|e| e.op == taskchampion::server::verif::GateOp::Del).count() as u64;
        out.count("aged_syncs_with_cleanup_deletions", (dels > 0) as u64);
    }
    let what = format!("{kname} at object-store request {k} of the sync");
    if continue_and_audit(&env, &mut a, &mut b, &accepted, out, &replay, &what) {
        out.nontrivial = Some(fnv(format!("cloud{i}").as_bytes()));
        if i < 3 {
            out.sample = Some(json!({"backend": "object-store", "fault": what, "requests_in_sync": steps}));
        }
    }
    set_random_source(None);
}

/// Prior history for the aged object-store stratum: versions 400..250 days old, two snapshots
/// (the older one superseded), both replicas up to date, replica A with a pending change.
fn prior_aged(env: &Env, world: &World, a: &mut Rep, b: &mut Rep, accepted: &Accepted) -> Result<(), String> {
    const DAY: u64 = 86400;
    let e = |e: taskchampion::Error| format!("prior sync: {e:#}");
    let mut sa = rec((env.open)(0)?, accepted);
    let mut sb = rec((env.open)(1)?, accepted);
    let snap = |rep: &mut Rep, srv: &mut Box<dyn Server>, world: &World| -> Result<(), String> {
        let t = block_on(model::replica_tasks(rep)).map_err(|e| e.to_string())?;
        let v = world.latest().ok_or("no latest")?;
        block_on(srv.add_snapshot(v, crate::props::c12::encode_snapshot(&t))).map_err(|e| format!("prior snapshot: {e:#}"))
    };
    world.store.set_clock(world.now.saturating_sub(400 * DAY));
    commit(a, &[AbsOp::Set(task(), "p".into(), "A0".into(), ts(1))])?;
    block_on(a.sync(&mut sa, true)).map_err(e)?;
    snap(a, &mut sa, world)?;
    world.store.set_clock(world.now.saturating_sub(300 * DAY));
    block_on(b.sync(&mut sb, true)).map_err(e)?;
    commit(b, &[AbsOp::Set(task(), "q".into(), "B1".into(), ts(2))])?;
    block_on(b.sync(&mut sb, true)).map_err(e)?;
    block_on(a.sync(&mut sa, true)).map_err(e)?;
    world.store.set_clock(world.now.saturating_sub(250 * DAY));
    commit(a, &[AbsOp::Set(task(), "r".into(), "A2".into(), ts(3))])?;
    block_on(a.sync(&mut sa, true)).map_err(e)?;
    snap(a, &mut sa, world)?;
    world.store.set_clock(world.now.saturating_sub(200 * DAY));
    commit(a, &[AbsOp::Set(task(), "r2".into(), "A3".into(), ts(3))])?;
    block_on(a.sync(&mut sa, true)).map_err(e)?;
    world.store.set_clock(world.now);
    block_on(b.sync(&mut sb, true)).map_err(e)?;
    commit(a, &[AbsOp::Set(task(), "r".into(), "A4".into(), ts(5)), AbsOp::Set(task(), "q".into(), "A4q".into(), ts(1))])?;
    Ok(())
}

// ---- git ------------------------------------------------------------------------------------------

/// Makes every accepted `add_version` ask for a snapshot (urgency High), so that the replica's sync
/// goes on into the backend's `add_snapshot` (and, for git, its cleanup of covered versions). Urgency
/// is only the server's advice; the backend steps it leads to are what the stratum interrupts.
pub struct ForceHigh(pub Box<dyn Server>);

#[async_trait::async_trait(?Send)]
impl Server for ForceHigh {
    async fn add_version(&mut self, p: Uuid, b: Vec<u8>) -> Result<(AddVersionResult, taskchampion::server::SnapshotUrgency), taskchampion::Error> {
        let (r, u) = self.0.add_version(p, b).await?;
        Ok(match r {
            AddVersionResult::Ok(_) => (r, taskchampion::server::SnapshotUrgency::High),
            _ => (r, u),
        })
    }
    async fn get_child_version(&mut self, p: Uuid) -> Result<GetVersionResult, taskchampion::Error> {
        self.0.get_child_version(p).await
    }
    async fn add_snapshot(&mut self, v: Uuid, s: Vec<u8>) -> Result<(), taskchampion::Error> {
        self.0.add_snapshot(v, s).await
    }
    async fn get_snapshot(&mut self) -> Result<Option<(Uuid, Vec<u8>)>, taskchampion::Error> {
        self.0.get_snapshot().await
    }
}

/// Prior history for the aged git strata: three versions and a snapshot (of the first, whose file that
/// snapshot's own cleanup already removes) committed "400 days ago"
/// (the wrapper sets the commit dates), one recent version by B, replica A with pending changes.
/// The target sync (urgency forced to High) then adds a version, stores a snapshot for it and the
/// backend's cleanup removes the two remaining expired version files that the snapshot covers.
fn prior_git_aged(env: &Env, w: &GitWorld, a: &mut Rep, b: &mut Rep, accepted: &Accepted) -> Result<(), String> {
    let e = |e: taskchampion::Error| format!("prior sync: {e:#}");
    let old = std::time::SystemTime::now().duration_since(std::time::UNIX_EPOCH).unwrap().as_secs() - 400 * 86400;
    std::fs::write(w.ctl("date"), format!("{old} +0000\n")).map_err(|e| format!("HARNESS date file: {e}"))?;
    // plain handles here: no snapshot is asked for while the history is being aged
    let mut sa = rec(block_on(w.cfg(0).into_server()).map_err(e)?, accepted);
    let mut sb = rec(block_on(w.cfg(1).into_server()).map_err(e)?, accepted);
    let _ = env;
    commit(a, &[AbsOp::Set(task(), "p".into(), "A0".into(), ts(1))])?;
    block_on(a.sync(&mut sa, true)).map_err(e)?;
    {
        // an old snapshot (of the first version), to be superseded by the target sync's
        let t = block_on(model::replica_tasks(a)).map_err(|e| e.to_string())?;
        let v = accepted.borrow().last().map(|x| x.0).ok_or("no version accepted")?;
        block_on(sa.add_snapshot(v, crate::props::c12::encode_snapshot(&t))).map_err(|e| format!("prior snapshot: {e:#}"))?;
    }
    block_on(b.sync(&mut sb, true)).map_err(e)?;
    commit(b, &[AbsOp::Set(task(), "q".into(), "B1".into(), ts(2))])?;
    block_on(b.sync(&mut sb, true)).map_err(e)?;
    block_on(a.sync(&mut sa, true)).map_err(e)?;
    commit(a, &[AbsOp::Set(task(), "r".into(), "A2".into(), ts(3))])?;
    block_on(a.sync(&mut sa, true)).map_err(e)?;
    block_on(b.sync(&mut sb, true)).map_err(e)?;
    std::fs::remove_file(w.ctl("date")).map_err(|e| format!("HARNESS date file: {e}"))?;
    // recent: B pushes one more version; A has one losing and one winning change pending
    commit(b, &[AbsOp::Set(task(), "q".into(), "B3".into(), ts(4))])?;
    block_on(b.sync(&mut sb, true)).map_err(e)?;
    commit(a, &[AbsOp::Set(task(), "r".into(), "A4".into(), ts(5)), AbsOp::Set(task(), "q".into(), "A4q".into(), ts(1))])?;
    Ok(())
}

pub struct GitWorld {
    pub dir: TempDir,
    pub wrapper: std::path::PathBuf,
    pub remote: Option<String>,
}

impl GitWorld {
    pub fn new(with_remote: bool) -> Result<GitWorld, String> {
        git_env();
        let dir = TempDir::new("c11git");
        let ctl = dir.path().join("ctl");
        std::fs::create_dir_all(&ctl).unwrap();
        let src = std::env::var("VERIF_DIR").unwrap_or_else(|_| "/verif".into());
        let wrapper = ctl.join("git");
        std::fs::copy(std::path::Path::new(&src).join("tools/gitwrap.sh"), &wrapper).map_err(|e| format!("HARNESS copy wrapper: {e}"))?;
        use std::os::unix::fs::PermissionsExt;
        std::fs::set_permissions(&wrapper, std::fs::Permissions::from_mode(0o755)).unwrap();
        let remote = if with_remote {
            let bare = dir.path().join("remote.git");
            let st = Command::new("git").args(["init", "--bare", "-q", "-b", "main"]).arg(&bare).output().map_err(|e| format!("HARNESS git init --bare: {e}"))?;
            if !st.status.success() {
                return Err("HARNESS git init --bare failed".into());
            }
            Some(bare.to_str().unwrap().to_string())
        } else {
            None
        };
        let w = GitWorld { dir, wrapper, remote };
        if with_remote {
            // initialise the remote (shared meta / salt) before any other clone opens: clones that
            // each initialise an empty remote are C08's configuration, not this check's
            let _ = block_on(w.cfg(0).into_server()).map_err(|e| format!("HARNESS open clone0: {e:#}"))?;
            let st = Command::new("git").current_dir(w.dir.path().join("clone0")).args(["push", "-q", w.remote.as_deref().unwrap(), "main"]).output().map_err(|e| format!("HARNESS push: {e}"))?;
            if !st.status.success() {
                return Err(format!("HARNESS initial push failed: {}", String::from_utf8_lossy(&st.stderr)));
            }
        }
        Ok(w)
    }
    pub fn cfg(&self, client: usize) -> ServerConfig {
        // local-only: every client uses the one repository; with a remote: one clone per client
        let path = if self.remote.is_some() { self.dir.path().join(format!("clone{client}")) } else { self.dir.path().join("repo") };
        ServerConfig::Git { local_path: path, branch: "main".into(), remote: self.remote.clone(), local_only: self.remote.is_none(), encryption_secret: b"c11-secret".to_vec(), git_path: Some(self.wrapper.clone()) }
    }
    pub fn ctl(&self, f: &str) -> std::path::PathBuf {
        self.wrapper.parent().unwrap().join(f)
    }
    pub fn reset_count(&self) {
        let _ = std::fs::write(self.ctl("count"), "0\n");
    }
    pub fn count(&self) -> usize {
        std::fs::read_to_string(self.ctl("count")).ok().and_then(|s| s.trim().parse().ok()).unwrap_or(0)
    }
    pub fn plan(&self, k: usize, kind: &str) {
        std::fs::write(self.ctl("plan"), format!("{k} {kind}\n")).unwrap();
    }
    pub fn clear(&self) {
        let _ = std::fs::remove_file(self.ctl("plan"));
        let _ = std::fs::remove_file(self.ctl("unreachable"));
    }
    pub fn log_tail(&self, n: usize) -> Vec<String> {
        let s = std::fs::read_to_string(self.ctl("log")).unwrap_or_default();
        let v: Vec<String> = s.lines().map(|l| l.to_string()).collect();
        v[v.len().saturating_sub(n)..].to_vec()
    }
}

fn git_env_of(w: std::rc::Rc<GitWorld>, name: &str) -> Env {
    git_env_of2(w, name, false)
}

/// `aged`: the history is legitimately trimmed (audit through a fresh replica), and replica A's
/// handle asks for a snapshot after every accepted version.
fn git_env_of2(w: std::rc::Rc<GitWorld>, name: &str, aged: bool) -> Env {
    let (w1, w2) = (w.clone(), w.clone());
    Env {
        trimmed: aged,
        other_first: false,
        name: name.into(),
        open: Box::new(move |c| {
            let h = block_on(w1.cfg(c).into_server()).map_err(|e| format!("{e:#}"))?;
            Ok(if aged && c == 0 { Box::new(ForceHigh(h)) as Box<dyn Server> } else { h })
        }),
        // audit: a fresh clone when there is a remote, the same repository otherwise
        open_audit: Box::new(move || block_on(w2.cfg(9).into_server()).map_err(|e| format!("{e:#}"))),
        dir: None,
    }
}

pub const GIT_KINDS: &[&str] = &["fail-before", "run-then-fail", "kill-before", "run-then-kill", "unreachable-from"];

/// Number of git invocations of the target sync in a fault-free run (deterministic per config).
fn git_count(with_remote: bool, aged: bool) -> Result<Vec<String>, String> {
    let w = std::rc::Rc::new(GitWorld::new(with_remote)?);
    let env = git_env_of2(w.clone(), "git", aged);
    let accepted: Accepted = Default::default();
    let rdir = w.dir.path().join("replicaA");
    let mut a = sqlite_rep(&rdir);
    let mut b = mem_rep();
    if aged {
        prior_git_aged(&env, &w, &mut a, &mut b, &accepted)?;
    } else {
        prior(&env, &mut a, &mut b, &accepted)?;
    }
    let mut sa = (env.open)(0)?;
    w.reset_count();
    let _ = std::fs::remove_file(w.ctl("log"));
    block_on(a.sync(&mut sa, true)).map_err(|e| format!("fault-free target sync: {e:#}"))?;
    // the git subcommand of every invocation of the target sync, in order
    let log = std::fs::read_to_string(w.ctl("log")).unwrap_or_default();
    let subs: Vec<String> = log.lines().map(|l| l.split_whitespace().nth(1).unwrap_or("?").to_string()).collect();
    if aged && subs.iter().filter(|s| *s == "rm").count() < 2 {
        return Err(format!("HARNESS aged git history: the fault-free target sync removed {} version files, at least 2 expected (commands: {})", subs.iter().filter(|s| *s == "rm").count(), subs.join(" ")));
    }
    Ok(subs)
}

fn git_case(with_remote: bool, aged: bool, other_first: bool, k: usize, kind: &str, index: u64, out: &mut CaseOut) {
    let name = match (with_remote, aged) {
        (true, false) => "git-remote",
        (false, false) => "git-local",
        (true, true) => "git-remote-aged",
        (false, true) => "git-local-aged",
    };
    let replay = json!({"stratum": name, "index": index, "invocation": k, "kind": kind, "other_first": other_first});
    let w = match GitWorld::new(with_remote) {
        Ok(w) => std::rc::Rc::new(w),
        Err(e) => {
            out.inconclusive = Some(e);
            return;
        }
    };
    let mut env = git_env_of2(w.clone(), name, aged);
    env.other_first = other_first;
    let accepted: Accepted = Default::default();
    let rdir = w.dir.path().join("replicaA");
    let mut a = sqlite_rep(&rdir);
    let mut b = mem_rep();
    let pr = if aged { prior_git_aged(&env, &w, &mut a, &mut b, &accepted) } else { prior(&env, &mut a, &mut b, &accepted) };
    if let Err(e) = pr {
        if e.starts_with("HARNESS") {
            out.inconclusive = Some(e);
        } else {
            out.violate(format!("{name}/prior-failed"), e, replay);
        }
        return;
    }
    let kill = kind.contains("kill");
    let mut cmd_line = String::new();
    if kill {
        drop(a);
        let spec = json!({"backend": "git", "local_path": match w.cfg(0) { ServerConfig::Git { local_path, .. } => local_path, _ => unreachable!() }, "remote": w.remote, "wrapper": w.wrapper, "replica_dir": rdir, "ctl": w.ctl(""), "k": k, "kind": kind, "aged": aged});
        let sf = w.dir.path().join("spec.json");
        std::fs::write(&sf, spec.to_string()).unwrap();
        let st = Command::new(std::env::current_exe().unwrap()).args(["worker", "c11", sf.to_str().unwrap()]).stdout(Stdio::null()).stderr(Stdio::null()).status();
        match st {
            Ok(s) if s.success() => {
                out.count("fault_beyond_last_invocation", 1);
                out.evaluations = 0;
                return;
            }
            Ok(_) => out.count("child_kills", 1),
            Err(e) => {
                out.inconclusive = Some(format!("spawn: {e}"));
                return;
            }
        }
        if let Some(l) = w.log_tail(1).first() {
            cmd_line = l.clone();
        }
        a = sqlite_rep(&rdir);
    } else {
        let mut sa = match (env.open)(0) {
            Ok(s) => rec(s, &accepted),
            Err(e) => {
                out.violate(format!("{name}/reopen-failed"), e, replay);
                return;
            }
        };
        w.reset_count();
        w.plan(k, kind);
        let _ = block_on(a.sync(&mut sa, true));
        let n = w.count();
        if let Some(l) = std::fs::read_to_string(w.ctl("log")).unwrap_or_default().lines().rev().find(|l| l.starts_with(&format!("{k} "))) {
            cmd_line = l.to_string();
        }
        drop(sa);
        if n < k {
            out.count("fault_beyond_last_invocation", 1);
            out.evaluations = 0;
            w.clear();
            return;
        }
        out.count("git_command_faults", 1);
    }
    w.clear();
    let sub = cmd_line.split_whitespace().nth(1).unwrap_or("?").to_string();
    let what = format!("{kind} at git invocation {k} ({})", cmd_line.split_whitespace().skip(1).take(3).collect::<Vec<_>>().join(" "));
    let mut replay = replay;
    replay["git_command"] = json!(cmd_line);
    let before = out.violations.len();
    if continue_and_audit(&env, &mut a, &mut b, &accepted, out, &replay, &what) {
        out.nontrivial = Some(fnv(format!("{name}{k}{kind}").as_bytes()));
        if k <= 2 && kind == "fail-before" {
            out.sample = Some(json!({"backend": name, "fault": what, "accepted_versions": accepted.borrow().len()}));
        }
    } else if out.violations.len() > before {
        // make the signature specific: which git step, which fault kind
        let v = out.violations.last_mut().unwrap();
        v.signature = format!("{}@{kind}:{sub}{}", v.signature, if other_first { "/other-first" } else { "" });
    }
}

/// Child-process entry: `tcv worker c11 <spec.json>` — one sync with the fault armed.
pub fn worker(args: &[String]) -> i32 {
    let spec: serde_json::Value = serde_json::from_str(&std::fs::read_to_string(&args[0]).expect("spec")).expect("spec json");
    let rdir = std::path::PathBuf::from(spec["replica_dir"].as_str().unwrap());
    let mut a = sqlite_rep(&rdir);
    match spec["backend"].as_str().unwrap() {
        "local" => {
            let mut s = block_on(ServerConfig::Local { server_dir: spec["server_dir"].as_str().unwrap().into() }.into_server()).expect("open local");
            set_failpoint(spec["failpoint"].as_str().unwrap(), 1, FailAction::Abort);
            let _ = block_on(a.sync(&mut s, true));
        }
        _ => {
            git_env();
            let cfg = ServerConfig::Git {
                local_path: spec["local_path"].as_str().unwrap().into(),
                branch: "main".into(),
                remote: spec["remote"].as_str().map(|s| s.to_string()),
                local_only: spec["remote"].is_null(),
                encryption_secret: b"c11-secret".to_vec(),
                git_path: Some(spec["wrapper"].as_str().unwrap().into()),
            };
            let mut s = block_on(cfg.into_server()).expect("open git");
            if spec["aged"].as_bool() == Some(true) {
                s = Box::new(ForceHigh(s));
            }
            let ctl = std::path::PathBuf::from(spec["ctl"].as_str().unwrap());
            std::fs::write(ctl.join("count"), "0\n").unwrap();
            std::fs::write(ctl.join("plan"), format!("{} {}\n", spec["k"], spec["kind"].as_str().unwrap())).unwrap();
            let _ = block_on(a.sync(&mut s, true));
        }
    }
    println!("DONE");
    0
}

pub fn run(ctx: &Ctx) -> Outcome {
    let mut acc = Acc::default();
    let only = ctx.replay.as_ref().and_then(|r| r.get("stratum").and_then(|s| s.as_str()).map(|s| s.to_string()));
    let only_idx = ctx.replay.as_ref().and_then(|r| r.get("index").and_then(|s| s.as_u64()));
    let want = |s: &str| only.as_deref().map(|o| o == s).unwrap_or(true);
    let range = |n: u64| -> (u64, u64) { match only_idx { Some(i) => (i, i + 1), None => (0, n) } };
    let reps = ctx.tier.pick(1, 10);
    if want("local") {
        let (lo, hi) = range(12);
        for _ in 0..reps {
            run_cases(&mut acc, "local", hi - lo, |i| {
                let mut out = CaseOut::new();
                local_case(i + lo, &mut out);
                out
            });
        }
        if only.is_none() {
            acc.exhaustive_parts.push("local: all 3 failpoints x {error, process abort} x {interrupted replica retries first, other replica syncs first}".into());
        }
    }
    if want("object-store") {
        let max = std::sync::atomic::AtomicUsize::new(0);
        let (lo, hi) = range(40 * 3 * 2);
        run_cases(&mut acc, "object-store", hi - lo, |i| {
            let mut out = CaseOut::new();
            cloud_case(i + lo, false, &max, &mut out);
            out
        });
        if only.is_none() {
            acc.exhaustive_parts.push(format!("object-store: every request (0..{}) of the target sync x {{fail before, perform then fail, client dropped}} x {{interrupted replica retries first, other replica syncs first}}", max.load(std::sync::atomic::Ordering::Relaxed)));
        }
    }
    if want("object-store-aged") {
        let max = std::sync::atomic::AtomicUsize::new(0);
        let (lo, hi) = range(40 * 3 * 2);
        run_cases(&mut acc, "object-store-aged", hi - lo, |i| {
            let mut out = CaseOut::new();
            cloud_case(i + lo, true, &max, &mut out);
            out
        });
        if only.is_none() {
            acc.exhaustive_parts.push(format!("object-store-aged (expired versions, superseded snapshot, cleanup inside add_version): every request (0..{}) of the target sync x {{fail before, perform then fail, client dropped}} x {{interrupted replica retries first, other replica syncs first}}", max.load(std::sync::atomic::Ordering::Relaxed)));
            acc.require("aged_syncs_with_cleanup_deletions", 5, "the aged object-store stratum saw too few syncs whose add_version ran a deleting cleanup");
        }
    }
    for (with_remote, aged) in [(true, true), (false, true), (false, false), (true, false)] {
        let name = match (with_remote, aged) {
            (true, false) => "git-remote",
            (false, false) => "git-local",
            (true, true) => "git-remote-aged",
            (false, true) => "git-local-aged",
        };
        if !want(name) {
            continue;
        }
        // quick tier: the aged local-only configuration is left to the thorough tier
        if aged && !with_remote && ctx.tier == crate::report::Tier::Quick && only.is_none() {
            continue;
        }
        let subcommands = match git_count(with_remote, aged) {
            Ok(n) => n,
            Err(e) => {
                if e.starts_with("HARNESS") {
                    acc.inconclusive.push(e);
                } else {
                    acc.violations.push(crate::report::Violation { signature: format!("{name}/fault-free-run-failed"), message: e, replay: json!({"stratum": name}) });
                }
                continue;
            }
        };
        let n = subcommands.len();
        let kinds: Vec<&str> = GIT_KINDS.iter().copied().filter(|k| with_remote || *k != "unreachable-from").collect();
        let total = (n * kinds.len()) as u64;
        // quick tier: with a remote, a seeded sample of the (invocation, kind) pairs; all of them otherwise
        let sample: Vec<u64> = if ctx.tier == crate::report::Tier::Quick && aged && only_idx.is_none() {
            // the steps that only this stratum reaches: the first and last removal of an expired
            // version file, the snapshot's and the cleanup's commit and push
            let all_of = |sub: &str| -> Vec<usize> { subcommands.iter().enumerate().filter(|(_, s)| *s == sub).map(|(i, _)| i).collect() };
            let (rms, commits, pushes) = (all_of("rm"), all_of("commit"), all_of("push"));
            let mut points: Vec<usize> = vec![];
            points.extend(rms.first());
            points.extend(rms.last());
            points.extend(commits.iter().rev().take(2));
            points.extend(pushes.iter().rev().take(2));
            let mut picks: Vec<u64> = vec![];
            for (ki, kind) in kinds.iter().enumerate() {
                for (pi, p0) in points.iter().enumerate() {
                    // every point with the two process-stop kinds; the error kinds on alternating points
                    if kind.contains("kill") || (pi + ki) % 2 == 0 {
                        picks.push((p0 * kinds.len() + ki) as u64);
                    }
                }
            }
            picks.sort();
            picks.dedup();
            picks
        } else if ctx.tier == crate::report::Tier::Quick && with_remote && only_idx.is_none() {
            // stratified: for every fault kind the first `add`, the `commit` and the `push` of the
            // write path; for "unreachable from" additionally the first `ls-remote` and `fetch`;
            // plus a few seeded extra points
            let first = |sub: &str| subcommands.iter().position(|s| s == sub);
            let mut picks: Vec<u64> = vec![];
            for (ki, kind) in kinds.iter().enumerate() {
                let mut subs = vec!["add", "commit", "push"];
                if *kind == "unreachable-from" {
                    subs.extend(["ls-remote", "fetch"]);
                }
                for sub in subs {
                    if let Some(k0) = first(sub) {
                        picks.push((k0 * kinds.len() + ki) as u64);
                    }
                }
            }
            let mut all: Vec<u64> = (0..total).filter(|i| !picks.contains(i)).collect();
            crate::rng::Rng::derive(ctx.seed, "c11-git-sample", 0).shuffle(&mut all);
            picks.extend(all.into_iter().take(3));
            picks.sort();
            picks.dedup();
            picks
        } else if ctx.tier == crate::report::Tier::Quick {
            let (lo, hi) = range(total);
            (lo..hi).collect()
        } else {
            let (lo, hi) = range(2 * total);
            (lo..hi).collect()
        };
        if std::env::var("TCV_ONLY").is_ok() {
            eprintln!("{name}: {n} git invocations in the target sync: {}", subcommands.join(" "));
        }
        let quick_orders = ctx.tier == crate::report::Tier::Quick && only_idx.is_none();
        // quick tier only: a loaded machine makes ~700 git executions per history very slow; cases
        // not started within the budget are skipped and reported (fewer histories explored, never
        // a verdict)
        let started = std::time::Instant::now();
        let skipped = std::sync::atomic::AtomicBool::new(false);
        let budget = if ctx.tier == crate::report::Tier::Quick && only_idx.is_none() { Some(std::time::Duration::from_secs(240)) } else { None };
        crate::report::run_cases_threads(&mut acc, name, sample.len() as u64, 8, |j| {
            if budget.map(|b| started.elapsed() > b).unwrap_or(false) {
                let mut out = CaseOut::new();
                out.count("git_cases_skipped_for_time", 1);
                skipped.store(true, std::sync::atomic::Ordering::Relaxed);
                return out;
            }
            // indexes >= total: the same fault point, continued with the other replica first
            let i = sample[j as usize];
            let (i0, mut other_first) = if i >= total { (i - total, true) } else { (i, false) };
            let k = 1 + (i0 as usize) / kinds.len();
            let kind = kinds[(i0 as usize) % kinds.len()];
            if quick_orders {
                // quick tier: one continuation order per fault point — the other replica first for
                // every process stop and for every second error
                other_first = kind.contains("kill") || i0 % 2 == 1;
            }
            let mut out = CaseOut::new();
            git_case(with_remote, aged, other_first, k, kind, if other_first { i0 + total } else { i0 }, &mut out);
            if aged {
                let n = out.counters.get("git_command_faults").copied().unwrap_or(0) + out.counters.get("child_kills").copied().unwrap_or(0);
                out.count("aged_git_faults_in_snapshot_or_cleanup_sync", n);
            }
            out
        });
        if only.is_none() && sample.len() as u64 == 2 * total && !skipped.load(std::sync::atomic::Ordering::Relaxed) {
            acc.exhaustive_parts.push(format!("{name}: every git invocation (1..={n}) of the target sync x {kinds:?} x {{interrupted replica retries first, other replica syncs first}}"));
        }
    }
    if only.is_none() {
        acc.require("continued_histories_audited", 30, "too few continued histories audited");
        acc.require("failpoint_errors", 3, "local failpoints not exercised");
        acc.require("child_aborts", 3, "no child-process abort at a local failpoint");
        acc.require("object_store_faults", 20, "too few object-store faults");
        acc.require("git_command_faults", 8, "too few git command faults");
        acc.require("child_kills", 4, "too few process kills at git commands");
        acc.require("aged_git_faults_in_snapshot_or_cleanup_sync", 8, "too few faults inside a git sync that stores a snapshot and removes expired versions");
    }
    Outcome {
        level: "fault_enumeration",
        rule: "history: A and B share a task; B pushes a version; A has pending changes (one losing, one winning); A's sync is interrupted at one internal backend step; then reopen, retry (<=2 attempts), B edits and syncs, both quiesce; audit through a fresh handle. Fault points: local = 3 failpoints x {error, abort}; object store = every request of the sync x {fail before, perform then fail, drop}; git (local-only; bare remote + 2 clones) = every git invocation of the sync x {fail before, run then fail, kill before, run then kill} + remote unreachable from invocation k; non-trivial = the fault point was reached; distinct by (backend, step, kind)".into(),
        exhaustive: None,
        acc,
        assumptions: vec![
            "git faults are injected by a wrapper script passed as git_path: 'kill before invocation k' is 'the process stops after the step preceding k'".into(),
            "liveness in bounded form: after faults stop every sync must succeed within two attempts".into(),
            "object store = hook's in-memory Service".into(),
        ],
        extra: Default::default(),
    }
}

//! C18 — reading tasks never panics, whatever the stored data (E6).
//!
//! Hostile task maps (recognised keys and prefixes x a boundary dictionary x random) are loaded
//! both by local commit and through sync from hand-written versions, on both storages; every read
//! accessor of Task, TaskData, WorkingSet, DependencyMap and Replica is then called under
//! `catch_unwind` (iterators fully drained). A panic is the violation; its signature is the
//! panic location.

use serde_json::json;
use std::panic::{catch_unwind, AssertUnwindSafe};
use std::str::FromStr;
use taskchampion::{Operation, Operations, Tag, Task, TaskData};
use uuid::Uuid;

use crate::exec::block_on;
use crate::model::{self, MOp};
use crate::props::c14::hostile_string;
use crate::report::{run_cases, take_last_panic, Acc, CaseOut, Ctx, Outcome};
use crate::rng::{fnv, Rng};
use crate::srv::{ChainRef, VersionRec};
use crate::world::*;

pub const KEYS: &[&str] = &[
    "status", "description", "modified", "start", "end", "wait", "entry", "due", "priority", "tag_", "tag_:", "tag_+x", "tag_ok", "tag_123",
    "tag_a b", "tag_PENDING", "annotation_", "annotation_0", "annotation_-1", "annotation_9223372036854775807", "annotation_-9223372036854775808",
    "annotation_8210266876800", "annotation_abc", "annotation_1e3", "dep_", "dep_not-a-uuid", "dep_00000000-0000-0000-0000-000000000000",
    "dep_a5c1b1d2-0c4e-4a3e-9f57-111111111111", "uda.ns.key", ".", "github.id", "", "tags", "depends",
];

pub const VALUES: &[&str] = &[
    "", "0", "-1", "1", "9223372036854775807", "-9223372036854775808", "9223372036854775808", "8210266876799", "8210266876800", "-8334601228800",
    "-8334601228801", "253402300800", "1000000000000000000000000000000", "+5", " 5", "5 ", "NaN", "1e3", "٣", "5\u{0}", "a,b", "pending", "completed",
    "deleted", "recurring", "H", "x",
];

pub const STATUSES: &[&str] = &["pending", "completed", "deleted"];

fn guarded<T>(what: &'static str, out: &mut CaseOut, ctxs: &str, replay: &serde_json::Value, f: impl FnOnce() -> T) -> Option<T> {
    out.count("accessor_calls", 1);
    match catch_unwind(AssertUnwindSafe(f)) {
        Ok(v) => Some(v),
        Err(p) => {
            let loc = take_last_panic().unwrap_or_else(|| crate::report::panic_message(&p));
            let site = loc.split(": ").next().unwrap_or("?").to_string();
            let site = site.rsplit("/src/").next().map(|s| format!("src/{s}")).unwrap_or(site);
            out.count("panics", 1);
            if out.violations.len() < 4 {
                out.violate(format!("panic@{site}"), format!("{what} panicked ({loc}) on {ctxs}"), replay.clone());
            }
            None
        }
    }
}

#[allow(deprecated)]
fn task_battery(t: &Task, other: Uuid, out: &mut CaseOut, ctxs: &str, replay: &serde_json::Value) {
    guarded("Task::get_uuid", out, ctxs, replay, || t.get_uuid());
    guarded("Task::get_taskmap", out, ctxs, replay, || t.get_taskmap().len());
    guarded("Task::get_status", out, ctxs, replay, || t.get_status());
    guarded("Task::get_description", out, ctxs, replay, || t.get_description().len());
    guarded("Task::get_entry", out, ctxs, replay, || t.get_entry());
    guarded("Task::get_priority", out, ctxs, replay, || t.get_priority().len());
    guarded("Task::get_wait", out, ctxs, replay, || t.get_wait());
    guarded("Task::is_waiting", out, ctxs, replay, || t.is_waiting());
    guarded("Task::is_active", out, ctxs, replay, || t.is_active());
    guarded("Task::is_blocked", out, ctxs, replay, || t.is_blocked());
    guarded("Task::is_blocking", out, ctxs, replay, || t.is_blocking());
    for tag in ["ok", "WAITING", "ACTIVE", "PENDING", "COMPLETED", "DELETED", "BLOCKED", "UNBLOCKED", "BLOCKING", "x:y"] {
        if let Ok(tg) = Tag::from_str(tag) {
            guarded("Task::has_tag", out, ctxs, replay, || t.has_tag(&tg));
        }
    }
    guarded("Task::get_tags", out, ctxs, replay, || t.get_tags().map(|t| t.to_string()).collect::<Vec<_>>().len());
    guarded("Task::get_annotations", out, ctxs, replay, || t.get_annotations().map(|a| format!("{a:?}")).collect::<Vec<_>>().len());
    guarded("Task::get_uda", out, ctxs, replay, || t.get_uda("ns", "key").map(|s| s.len()));
    guarded("Task::get_uda", out, ctxs, replay, || t.get_uda("", "").map(|s| s.len()));
    guarded("Task::get_udas", out, ctxs, replay, || t.get_udas().count());
    guarded("Task::get_legacy_uda", out, ctxs, replay, || t.get_legacy_uda("github.id").map(|s| s.len()));
    guarded("Task::get_user_defined_attribute", out, ctxs, replay, || t.get_user_defined_attribute("").map(|s| s.len()));
    guarded("Task::get_user_defined_attribute", out, ctxs, replay, || t.get_user_defined_attribute("tags").map(|s| s.len()));
    guarded("Task::get_legacy_udas", out, ctxs, replay, || t.get_legacy_udas().count());
    guarded("Task::get_user_defined_attributes", out, ctxs, replay, || t.get_user_defined_attributes().count());
    guarded("Task::get_modified", out, ctxs, replay, || t.get_modified());
    guarded("Task::get_due", out, ctxs, replay, || t.get_due());
    guarded("Task::get_dependencies", out, ctxs, replay, || t.get_dependencies().count());
    for p in ["status", "modified", "due", "wait", "entry", "end", "start", "tag_", "nope", ""] {
        guarded("Task::get_value", out, ctxs, replay, || t.get_value(p).map(|s| s.len()));
        guarded("Task::get_timestamp", out, ctxs, replay, || t.get_timestamp(p));
    }
    guarded("Task::fmt", out, ctxs, replay, || format!("{t:?}").len());
    guarded("Task::clone/eq", out, ctxs, replay, || t.clone() == *t);
    guarded("Task::into_task_data", out, ctxs, replay, || t.clone().into_task_data().get_uuid());
    let _ = other;
}

fn data_battery(t: &TaskData, out: &mut CaseOut, ctxs: &str, replay: &serde_json::Value) {
    guarded("TaskData::get_uuid", out, ctxs, replay, || t.get_uuid());
    for p in ["status", "modified", "tag_", ""] {
        guarded("TaskData::get", out, ctxs, replay, || t.get(p).map(|s| s.len()));
        guarded("TaskData::has", out, ctxs, replay, || t.has(p));
    }
    guarded("TaskData::properties", out, ctxs, replay, || t.properties().count());
    guarded("TaskData::iter", out, ctxs, replay, || t.iter().count());
    guarded("TaskData::fmt", out, ctxs, replay, || format!("{t:?}").len());
    guarded("TaskData::clone/eq", out, ctxs, replay, || t.clone() == *t);
}

fn replica_battery(r: &mut R, uuids: &[Uuid], out: &mut CaseOut, ctxs: &str, replay: &serde_json::Value) {
    let rep = &mut r.rep;
    let all = guarded("Replica::all_tasks", out, ctxs, replay, || block_on(rep.all_tasks()));
    let all_data = guarded("Replica::all_task_data", out, ctxs, replay, || block_on(rep.all_task_data()));
    guarded("Replica::all_task_uuids", out, ctxs, replay, || block_on(rep.all_task_uuids()).map(|v| v.len()));
    let pend = guarded("Replica::pending_tasks", out, ctxs, replay, || block_on(rep.pending_tasks()));
    guarded("Replica::pending_task_data", out, ctxs, replay, || block_on(rep.pending_task_data()).map(|v| v.len()));
    let ws = guarded("Replica::working_set", out, ctxs, replay, || block_on(rep.working_set()));
    let dm = guarded("Replica::dependency_map(true)", out, ctxs, replay, || block_on(rep.dependency_map(true)));
    guarded("Replica::dependency_map(false)", out, ctxs, replay, || block_on(rep.dependency_map(false)).map(|_| ()));
    guarded("Replica::num_local_operations", out, ctxs, replay, || block_on(rep.num_local_operations()));
    guarded("Replica::num_undo_points", out, ctxs, replay, || block_on(rep.num_undo_points()));
    guarded("Replica::get_undo_operations", out, ctxs, replay, || block_on(rep.get_undo_operations()).map(|v| v.len()));
    for u in uuids.iter().take(3) {
        guarded("Replica::get_task", out, ctxs, replay, || block_on(rep.get_task(*u)).map(|t| t.is_some()));
        guarded("Replica::get_task_data", out, ctxs, replay, || block_on(rep.get_task_data(*u)).map(|t| t.is_some()));
        guarded("Replica::get_task_operations", out, ctxs, replay, || block_on(rep.get_task_operations(*u)).map(|t| t.len()));
    }
    if let Some(Ok(ws)) = ws {
        guarded("WorkingSet::len", out, ctxs, replay, || ws.len());
        guarded("WorkingSet::largest_index", out, ctxs, replay, || ws.largest_index());
        guarded("WorkingSet::is_empty", out, ctxs, replay, || ws.is_empty());
        for i in [0usize, 1, 2, 1000, usize::MAX] {
            guarded("WorkingSet::by_index", out, ctxs, replay, || ws.by_index(i));
        }
        for u in uuids.iter().take(3) {
            guarded("WorkingSet::by_uuid", out, ctxs, replay, || ws.by_uuid(*u));
        }
        guarded("WorkingSet::iter", out, ctxs, replay, || ws.iter().count());
        guarded("WorkingSet::fmt", out, ctxs, replay, || format!("{ws:?}").len());
    }
    if let Some(Ok(dm)) = dm {
        for u in uuids.iter().take(4) {
            guarded("DependencyMap::dependencies", out, ctxs, replay, || dm.dependencies(*u).count());
            guarded("DependencyMap::dependents", out, ctxs, replay, || dm.dependents(*u).count());
        }
        guarded("DependencyMap::fmt", out, ctxs, replay, || format!("{dm:?}").len());
    }
    if let Some(Ok(all)) = all {
        for (u, t) in all.iter() {
            task_battery(t, *u, out, ctxs, replay);
        }
        out.count("tasks_read", all.len() as u64);
    }
    if let Some(Ok(p)) = pend {
        for t in p.iter() {
            guarded("Task::get_tags(pending)", out, ctxs, replay, || t.get_tags().count());
        }
    }
    if let Some(Ok(all)) = all_data {
        for (_, t) in all.iter() {
            data_battery(t, out, ctxs, replay);
        }
    }
}

/// Load `maps` into a fresh replica (locally or through sync) and run the whole battery.
fn load_and_read(maps: &[(Uuid, Vec<(String, String)>)], via_sync: bool, kind: StoreKind, out: &mut CaseOut, replay: &serde_json::Value) {
    let chain = ChainRef::new();
    let mut r = new_replica(0, kind, &chain);
    if via_sync {
        let mut ops = vec![];
        for (u, props) in maps {
            ops.push(MOp::Create(*u));
            for (k, v) in props {
                ops.push(MOp::Update { uuid: *u, prop: k.clone(), value: Some(v.clone()), ts: ts(1) });
            }
        }
        chain.0.borrow_mut().versions.push(VersionRec { id: crate::srv::version_uuid(1), parent: Uuid::nil(), bytes: model::encode_version(&ops), client: 9, sync_call: 0 });
        match catch_unwind(AssertUnwindSafe(|| sync(&mut r, &chain, false))) {
            Ok(Ok(())) => {}
            Ok(Err(e)) => {
                out.inconclusive = Some(format!("loading through sync failed: {e:#}"));
                return;
            }
            Err(_) => {
                let loc = take_last_panic().unwrap_or_default();
                out.violate("panic-in-sync".to_string(), format!("sync panicked while loading hostile data: {loc}"), replay.clone());
                return;
            }
        }
    } else {
        let mut ops = Operations::new();
        for (u, props) in maps {
            ops.push(Operation::Create { uuid: *u });
            for (k, v) in props {
                ops.push(Operation::Update { uuid: *u, property: k.clone(), old_value: None, value: Some(v.clone()), timestamp: ts(1) });
            }
        }
        match catch_unwind(AssertUnwindSafe(|| block_on(r.rep.commit_operations(ops)))) {
            Ok(Ok(())) => {}
            Ok(Err(e)) => {
                out.inconclusive = Some(format!("loading by commit failed: {e:#}"));
                return;
            }
            Err(_) => {
                let loc = take_last_panic().unwrap_or_default();
                out.violate("panic-in-commit".to_string(), format!("commit panicked while loading hostile data: {loc}"), replay.clone());
                return;
            }
        }
    }
    let uuids: Vec<Uuid> = maps.iter().map(|m| m.0).collect();
    let ctxs = format!("{} task(s), e.g. {:?}", maps.len(), maps.first().map(|m| m.1.iter().map(|(k, v)| format!("{}={}", model::trunc(k), model::trunc(v))).collect::<Vec<_>>()));
    // per-task context makes the message precise when only one task is loaded
    replica_battery(&mut r, &uuids, out, &ctxs, replay);
    // a rebuild and an expiry over hostile data are reads of the same data too
    guarded("Replica::rebuild_working_set", out, &ctxs, replay, || block_on(r.rep.rebuild_working_set(true)).is_ok());
    guarded("Replica::expire_tasks", out, &ctxs, replay, || block_on(r.rep.expire_tasks()).is_ok());
}

fn dict_case(i: u64, out: &mut CaseOut) {
    // one (key, value, status) triple per case, loaded alone so that the witness is minimal
    let k = KEYS[(i % KEYS.len() as u64) as usize];
    let v = VALUES[((i / KEYS.len() as u64) % VALUES.len() as u64) as usize];
    let s = STATUSES[((i / (KEYS.len() * VALUES.len()) as u64) % STATUSES.len() as u64) as usize];
    let replay = json!({"stratum": "dictionary", "index": i, "key": k, "value": v, "status": s});
    let mut props = vec![("status".to_string(), s.to_string())];
    props.push((k.to_string(), v.to_string()));
    let maps = vec![(Uuid::from_u128(0xC18_0000 + i as u128), props)];
    let via_sync = i % 2 == 1;
    load_and_read(&maps, via_sync, StoreKind::Mem, out, &replay);
    out.nontrivial = Some(fnv(format!("{k}|{v}|{s}").as_bytes()));
    if i % 977 == 0 {
        out.sample = Some(json!({"task": {"status": s, k: v}, "via_sync": via_sync}));
    }
}

fn random_case(i: u64, seed: u64, out: &mut CaseOut) {
    let mut rng = Rng::derive(seed, "c18-random", i);
    let replay = json!({"stratum": "random", "index": i});
    let n = 1 + rng.below(40);
    let mut uuids: Vec<Uuid> = (0..n).map(|_| rng.uuid()).collect();
    uuids.push(Uuid::nil());
    let mut maps = vec![];
    for u in &uuids {
        let mut props = vec![];
        if rng.chance(4, 5) {
            props.push(("status".to_string(), if rng.chance(3, 4) { (*rng.pick(STATUSES)).to_string() } else { hostile_string(&mut rng) }));
        }
        for _ in 0..rng.below(6) {
            let mut k = (*rng.pick(KEYS)).to_string();
            if rng.chance(1, 4) {
                // prefix + hostile suffix
                let pre = *rng.pick(&["tag_", "annotation_", "dep_", "", "uda."]);
                k = format!("{pre}{}", if rng.chance(1, 2) { hostile_string(&mut rng) } else { (*rng.pick(VALUES)).to_string() });
            }
            if k.starts_with("dep_") && rng.chance(1, 2) {
                k = format!("dep_{}", rng.pick(&uuids));
            }
            let v = match rng.below(4) {
                0 => hostile_string(&mut rng),
                1 => (rng.next_u64() as i64).to_string(),
                _ => (*rng.pick(VALUES)).to_string(),
            };
            props.push((k, v));
        }
        maps.push((*u, props));
    }
    let kind = if rng.chance(1, 10) { StoreKind::Sqlite } else { StoreKind::Mem };
    load_and_read(&maps, rng.chance(1, 2), kind, out, &replay);
    out.nontrivial = Some(fnv(format!("{maps:?}").as_bytes()));
    if i < 1 {
        out.sample = Some(json!({"tasks": maps.iter().take(3).map(|(u, p)| json!({"uuid": u.to_string(), "props": p.iter().map(|(k, v)| format!("{}={}", model::trunc(k), model::trunc(v))).collect::<Vec<_>>()})).collect::<Vec<_>>()}));
    }
}

pub fn run(ctx: &Ctx) -> Outcome {
    let mut acc = Acc::default();
    let seed = ctx.seed;
    let only = ctx.replay.as_ref().and_then(|r| r.get("stratum").and_then(|s| s.as_str()).map(|s| s.to_string()));
    let only_idx = ctx.replay.as_ref().and_then(|r| r.get("index").and_then(|s| s.as_u64()));
    let want = |s: &str| only.as_deref().map(|o| o == s).unwrap_or(true);
    let range = |n: u64| -> (u64, u64) { match only_idx { Some(i) => (i, i + 1), None => (0, n) } };
    if want("dictionary") {
        let total = (KEYS.len() * VALUES.len() * STATUSES.len()) as u64;
        let (lo, hi) = range(total);
        run_cases(&mut acc, "dictionary", hi - lo, |i| {
            let mut out = CaseOut::new();
            dict_case(i + lo, &mut out);
            out
        });
        if only.is_none() && !acc.truncated {
            acc.exhaustive_parts.push(format!("dictionary: every key ({}) x every value ({}) x {} statuses, alternately loaded by commit and through sync", KEYS.len(), VALUES.len(), STATUSES.len()));
        }
    }
    if want("random") {
        let (lo, hi) = range(ctx.tier.pick(10_000, 100_000));
        run_cases(&mut acc, "random", hi - lo, |i| {
            let mut out = CaseOut::new();
            random_case(i + lo, seed, &mut out);
            out
        });
    }
    if only.is_none() {
        acc.require("accessor_calls", 100_000, "too few accessor calls");
    }
    Outcome {
        level: "exploration",
        rule: "boundary dictionary enumerated completely (recognised keys and prefixes x boundary values x statuses; each triple loaded alone, alternately by local commit and through sync from a hand-written version) + random task sets of 1-40 tasks with several hostile properties each (prefix + hostile suffix, dependency keys naming real tasks, random i64 values; 1/10 on SQLite); every read accessor of Task/TaskData/WorkingSet/DependencyMap/Replica under catch_unwind with iterators drained; distinct by task-map content".into(),
        exhaustive: None,
        acc,
        assumptions: vec!["a panic is attributed by the location reported to the panic hook".into()],
        extra: Default::default(),
    }
}

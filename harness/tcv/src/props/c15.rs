//! C15 — the working set lists exactly the pending tasks, with stable numbering (E1).
//!
//! Oracle: a specification model written from the statement (not from `rebuild`): membership,
//! uniqueness, empty position 0, number stability without renumbering, compaction and relative
//! order with renumbering, append-at-end on commit. Newcomer *positions* are only required to be
//! distinct and above every retained number.

use serde_json::json;
use std::collections::{BTreeMap, BTreeSet};
use taskchampion::storage::{Storage, TaskMap};
use taskchampion::{Operation, Replica};
use uuid::Uuid;

use crate::exec::block_on;
use crate::model::{self, Tasks};
use crate::obs::ObservedStorage;
use crate::report::{run_cases, Acc, CaseOut, Ctx, Outcome, Tier};
use crate::rng::{fnv, Rng};
use crate::srv::ChainRef;
use crate::world::*;

fn is_pending(t: &model::TaskM) -> bool {
    matches!(t.get("status").map(|s| s.as_str()), Some("pending") | Some("recurring"))
}

fn pending_set(tasks: &Tasks) -> BTreeSet<Uuid> {
    tasks.iter().filter(|(_, t)| is_pending(t)).map(|(u, _)| *u).collect()
}

fn show_ws(ws: &[Option<Uuid>]) -> String {
    ws.iter().map(|x| x.map(model::su).unwrap_or_else(|| "-".into())).collect::<Vec<_>>().join(",")
}

/// Specification of a rebuild.
pub fn check_rebuild(old: &[Option<Uuid>], new: &[Option<Uuid>], tasks: &Tasks, renumber: bool) -> Result<(), (String, String)> {
    let pend = pending_set(tasks);
    let ctx = format!("old [{}] new [{}] pending {{{}}} renumber={renumber}", show_ws(old), show_ws(new), pend.iter().map(|u| model::su(*u)).collect::<Vec<_>>().join(","));
    if new.first().map(|x| x.is_some()).unwrap_or(false) {
        return Err(("position-0-occupied".into(), ctx));
    }
    let mut seen = BTreeMap::new();
    for (i, x) in new.iter().enumerate() {
        if let Some(u) = x {
            if seen.insert(*u, i).is_some() {
                return Err(("task-twice".into(), ctx));
            }
            if !pend.contains(u) {
                return Err(("non-pending-task-present".into(), ctx));
            }
        }
    }
    for u in &pend {
        if !seen.contains_key(u) {
            return Err(("pending-task-missing".into(), ctx));
        }
    }
    // retained = in the old working set (first occurrence) and still pending
    let mut old_pos: BTreeMap<Uuid, usize> = BTreeMap::new();
    for (i, x) in old.iter().enumerate() {
        if let Some(u) = x {
            old_pos.entry(*u).or_insert(i);
        }
    }
    let retained: Vec<(usize, Uuid)> = old_pos.iter().filter(|(u, _)| pend.contains(u)).map(|(u, i)| (*i, *u)).collect();
    if !renumber {
        let mut max_retained = 0usize;
        for (i, u) in &retained {
            if seen[u] != *i {
                return Err(("retained-task-renumbered".into(), ctx));
            }
            max_retained = max_retained.max(*i);
        }
        for (u, i) in &seen {
            if !old_pos.contains_key(u) && *i <= max_retained {
                return Err(("newcomer-below-number-in-use".into(), ctx));
            }
        }
    } else {
        let n = pend.len();
        for i in 1..=n {
            if new.get(i).map(|x| x.is_none()).unwrap_or(true) {
                return Err(("gap-after-renumber".into(), ctx));
            }
        }
        if new.len() > n + 1 && new[n + 1..].iter().any(|x| x.is_some()) {
            return Err(("gap-after-renumber".into(), ctx));
        }
        let mut sorted = retained.clone();
        sorted.sort();
        let order: Vec<usize> = sorted.iter().map(|(_, u)| seen[u]).collect();
        if order.windows(2).any(|w| w[0] >= w[1]) {
            return Err(("relative-order-changed".into(), ctx));
        }
    }
    Ok(())
}

fn read_ws<S: Storage>(rep: &mut Replica<S>) -> Vec<Option<Uuid>> {
    let ws = block_on(rep.working_set()).expect("working_set");
    let n = ws.largest_index();
    (0..=n).map(|i| ws.by_index(i)).collect()
}

fn tm(status: Option<&str>) -> TaskMap {
    let mut t = TaskMap::new();
    if let Some(s) = status {
        t.insert("status".into(), s.into());
    }
    t.insert("description".into(), "x".into());
    t
}

/// Exhaustive core: prior working sets built slot by slot directly in storage.
fn core_case(name: &str, idx: u64, kind: StoreKind, out: &mut CaseOut) {
    // decode: length 0..=4, each slot in {pending, completed, purged, gap}, newcomers 0..=2, mode
    let mut k = idx;
    let renumber = k % 2 == 1;
    k /= 2;
    let newcomers = (k % 3) as usize;
    k /= 3;
    // k enumerates slot vectors of length 0..=4 (1 + 4 + 16 + 64 + 256 = 341)
    let mut len = 0usize;
    let mut span = 1u64;
    while k >= span {
        k -= span;
        len += 1;
        span *= 4;
    }
    let slots: Vec<u8> = (0..len).map(|j| ((k >> (2 * j)) & 3) as u8).collect();
    let replay = json!({"stratum": name, "index": idx, "slots": slots, "newcomers": newcomers, "renumber": renumber});
    let dir = if kind == StoreKind::Sqlite { Some(TempDir::new("c15")) } else { None };
    let mut st = open_storage(kind, dir.as_ref().map(|d| d.path()));
    let mut tasks = Tasks::new();
    {
        let mut txn = block_on(st.txn()).expect("txn");
        for (j, s) in slots.iter().enumerate() {
            let u = Uuid::from_u128(0xC15_0000 + j as u128);
            match s {
                0 => {
                    block_on(txn.set_task(u, tm(Some(if j % 2 == 0 { "pending" } else { "recurring" })))).unwrap();
                }
                1 => {
                    block_on(txn.set_task(u, tm(Some(if j % 2 == 0 { "completed" } else { "deleted" })))).unwrap();
                }
                _ => {}
            }
            block_on(txn.add_to_working_set(u)).unwrap();
        }
        // gaps: clear the slot after all slots exist (a trailing run of gaps vanishes by contract)
        for (j, s) in slots.iter().enumerate() {
            if *s == 3 {
                let cur = block_on(txn.get_working_set()).unwrap();
                if j + 1 < cur.len() {
                    block_on(txn.set_working_set_item(j + 1, None)).unwrap();
                }
            }
        }
        for n in 0..newcomers {
            let u = Uuid::from_u128(0xC15_1000 + n as u128);
            block_on(txn.set_task(u, tm(Some("pending")))).unwrap();
        }
        // a few tasks that must never enter the working set
        block_on(txn.set_task(Uuid::from_u128(0xC15_2000), tm(Some("completed")))).unwrap();
        block_on(txn.set_task(Uuid::from_u128(0xC15_2001), tm(None))).unwrap();
        block_on(txn.set_task(Uuid::from_u128(0xC15_2002), tm(Some("weird")))).unwrap();
        for (u, t) in block_on(txn.all_tasks()).unwrap() {
            tasks.insert(u, model::taskmap_to_m(&t));
        }
        block_on(txn.commit()).unwrap();
    }
    let (obs, _ctl) = ObservedStorage::new(st);
    let mut rep = Replica::new(obs);
    let old = read_ws(&mut rep);
    if let Err(e) = block_on(rep.rebuild_working_set(renumber)) {
        out.violate("rebuild-error", format!("{e:#}"), replay);
        return;
    }
    let new = read_ws(&mut rep);
    out.count("rebuilds_checked", 1);
    if let Err((sig, msg)) = check_rebuild(&old, &new, &tasks, renumber) {
        out.violate(format!("rebuild/{sig}"), msg, replay);
        return;
    }
    // pending_task_data agrees with the working set
    let pt: BTreeSet<Uuid> = block_on(rep.pending_task_data()).unwrap_or_default().iter().map(|t| t.get_uuid()).collect();
    if pt != pending_set(&tasks) {
        out.violate("pending-task-data", "pending_task_data differs from the pending set".to_string(), replay);
        return;
    }
    let interesting = slots.iter().any(|s| *s != 0) || newcomers > 0;
    if interesting {
        out.nontrivial = Some(fnv(format!("{slots:?}{newcomers}{renumber}").as_bytes()));
    }
    if idx % 701 == 5 {
        out.sample = Some(json!({"slots(0=pending,1=completed,2=purged,3=gap)": slots, "newcomers": newcomers, "renumber": renumber, "old": show_ws(&old), "new": show_ws(&new)}));
    }
}

const STATUSES: &[Option<&str>] = &[Some("pending"), Some("recurring"), Some("completed"), Some("deleted"), Some("weird"), None];

fn random_case(i: u64, seed: u64, out: &mut CaseOut) {
    let mut rng = Rng::derive(seed, "c15-random", i);
    let chain = ChainRef::new();
    let replay = json!({"stratum": "random", "index": i});
    let kind = if rng.chance(1, 6) { StoreKind::Sqlite } else { StoreKind::Mem };
    let mut r = new_replica(0, kind, &chain);
    let mut other = new_replica(1, StoreKind::Mem, &chain);
    let pool: Vec<Uuid> = (0..6).map(|_| rng.uuid()).collect();
    let mut trail = vec![];
    let steps = 8 + rng.below(25);
    let mut rich = false;
    for _ in 0..steps {
        let old = read_ws(&mut r.rep);
        let choice = rng.below(100);
        if choice < 45 {
            // commit: status changes, purges, creations
            let mut abs = vec![];
            if rng.chance(1, 2) {
                abs.push(AbsOp::UndoPoint);
            }
            for _ in 0..(1 + rng.below(3)) {
                let u = *rng.pick(&pool);
                match rng.below(8) {
                    0 => abs.push(AbsOp::Delete(u)),
                    1 => abs.push(AbsOp::Remove(u, "status".into(), ts(1))),
                    _ => match rng.pick(STATUSES) {
                        Some(s) => abs.push(AbsOp::Set(u, "status".into(), s.to_string(), ts(rng.range(0, 9)))),
                        None => abs.push(AbsOp::Set(u, "description".into(), "d".into(), ts(1))),
                    },
                }
            }
            let ops = match concretise(&mut r.rep, &abs) {
                Ok(o) => o,
                Err(e) => {
                    out.inconclusive = Some(e);
                    return;
                }
            };
            trail.push(format!("commit {:?}", show_ops(&ops)));
            let before_tasks = block_on(model::replica_tasks(&mut r.rep)).unwrap_or_default();
            if let Err(e) = block_on(r.rep.commit_operations(ops.clone())) {
                out.violate("commit-error", format!("{e:#}"), replay.clone());
                return;
            }
            let new = read_ws(&mut r.rep);
            let after_tasks = block_on(model::replica_tasks(&mut r.rep)).unwrap_or_default();
            // existing numbers undisturbed
            for (j, x) in old.iter().enumerate() {
                if x.is_some() && new.get(j) != Some(x) {
                    out.violate("commit/existing-number-moved", format!("old [{}] new [{}]; trail {trail:?}", show_ws(&old), show_ws(&new)), replay.clone());
                    return;
                }
            }
            let in_use = old.iter().rposition(|x| x.is_some()).unwrap_or(0);
            let mut seen = BTreeSet::new();
            for (j, x) in new.iter().enumerate() {
                if let Some(u) = x {
                    if !seen.insert(*u) {
                        out.violate("commit/task-twice", format!("old [{}] new [{}]; trail {trail:?}", show_ws(&old), show_ws(&new)), replay.clone());
                        return;
                    }
                    if !old.contains(&Some(*u)) && j <= in_use {
                        out.violate("commit/added-below-number-in-use", format!("old [{}] new [{}]; trail {trail:?}", show_ws(&old), show_ws(&new)), replay.clone());
                        return;
                    }
                }
            }
            // every task turned pending by this batch (and still pending at its end) is listed
            let mut shadow = before_tasks.clone();
            let mut turned = BTreeSet::new();
            for op in &ops {
                if let Operation::Update { uuid, property, value, .. } = op {
                    if property == "status" {
                        let was = shadow.get(uuid).map(is_pending).unwrap_or(false);
                        let now = matches!(value.as_deref(), Some("pending") | Some("recurring"));
                        if !was && now {
                            turned.insert(*uuid);
                        }
                    }
                }
                if let Some(m) = model::from_operation(op) {
                    model::apply(&mut shadow, &m);
                }
            }
            for u in turned {
                if after_tasks.get(&u).map(is_pending).unwrap_or(false) {
                    out.count("tasks_turned_pending_in_commit", 1);
                    if !new.contains(&Some(u)) {
                        out.violate("commit/newly-pending-not-added", format!("task {} became pending but is not in [{}]; trail {trail:?}", model::su(u), show_ws(&new)), replay.clone());
                        return;
                    }
                }
            }
        } else if choice < 70 {
            let renumber = rng.chance(1, 2);
            trail.push(format!("rebuild({renumber})"));
            let tasks = block_on(model::replica_tasks(&mut r.rep)).unwrap_or_default();
            if old.iter().skip(1).any(|x| match x { None => true, Some(u) => !tasks.get(u).map(is_pending).unwrap_or(false) }) {
                rich = true;
            }
            if let Err(e) = block_on(r.rep.rebuild_working_set(renumber)) {
                out.violate("rebuild-error", format!("{e:#}"), replay.clone());
                return;
            }
            let new = read_ws(&mut r.rep);
            out.count("rebuilds_checked", 1);
            if let Err((sig, msg)) = check_rebuild(&old, &new, &tasks, renumber) {
                out.violate(format!("rebuild/{sig}"), format!("{msg}; trail {trail:?}"), replay.clone());
                return;
            }
        } else if choice < 82 {
            // the other replica changes statuses / purges and syncs; then we sync (implicit rebuild(false))
            let u = *rng.pick(&pool);
            let abs = match rng.below(4) {
                0 => vec![AbsOp::Delete(u)],
                _ => vec![AbsOp::Set(u, "status".into(), rng.pick(STATUSES).unwrap_or("pending").to_string(), ts(rng.range(10, 19)))],
            };
            let ops = concretise(&mut other.rep, &abs).unwrap_or_default();
            let _ = block_on(other.rep.commit_operations(ops));
            if sync(&mut other, &chain, false).is_err() {
                out.inconclusive = Some("other replica sync failed".into());
                return;
            }
            trail.push("sync".into());
            if let Err(e) = sync(&mut r, &chain, false) {
                out.violate("sync-error", format!("{e:#}"), replay.clone());
                return;
            }
            let tasks = block_on(model::replica_tasks(&mut r.rep)).unwrap_or_default();
            let new = read_ws(&mut r.rep);
            out.count("sync_rebuilds_checked", 1);
            if let Err((sig, msg)) = check_rebuild(&old, &new, &tasks, false) {
                out.violate(format!("sync-rebuild/{sig}"), format!("{msg}; trail {trail:?}"), replay.clone());
                return;
            }
        } else if choice < 92 {
            // undo (implicit rebuild(false) when something was undone)
            let ops = block_on(r.rep.get_undo_operations()).unwrap_or_default();
            trail.push(format!("undo {:?}", show_ops(&ops)));
            match block_on(r.rep.commit_reversed_operations(ops)) {
                Ok(true) => {
                    let tasks = block_on(model::replica_tasks(&mut r.rep)).unwrap_or_default();
                    let new = read_ws(&mut r.rep);
                    out.count("undo_rebuilds_checked", 1);
                    if let Err((sig, msg)) = check_rebuild(&old, &new, &tasks, false) {
                        out.violate(format!("undo-rebuild/{sig}"), format!("{msg}; trail {trail:?}"), replay.clone());
                        return;
                    }
                }
                Ok(false) => {}
                Err(e) => {
                    out.violate("undo-error", format!("{e:#}"), replay.clone());
                    return;
                }
            }
        } else {
            // expire: purge old deleted tasks outright
            let u = *rng.pick(&pool);
            let abs = vec![AbsOp::Set(u, "status".into(), "deleted".into(), ts(1)), AbsOp::Set(u, "modified".into(), "1000000000".into(), ts(1))];
            let ops = concretise(&mut r.rep, &abs).unwrap_or_default();
            let _ = block_on(r.rep.commit_operations(ops));
            let _ = block_on(r.rep.expire_tasks());
            trail.push(format!("expire {}", model::su(u)));
        }
    }
    if rich {
        out.nontrivial = Some(fnv(format!("{trail:?}").as_bytes()));
    }
    if i < 2 {
        out.sample = Some(json!({"trail": trail}));
    }
}

/// Regression corpus (DESIGN Appendix A: F3a gap survives renumbering, F3b purged entry shifts numbers).
fn corpus_case(which: u64, out: &mut CaseOut) {
    let chain = ChainRef::new();
    let replay = json!({"stratum": "corpus", "index": which});
    let mut r = new_replica(0, StoreKind::Mem, &chain);
    let t: Vec<Uuid> = (0..4).map(|j| Uuid::from_u128(0xF3_0000 + j)).collect();
    for u in &t {
        let ops = concretise(&mut r.rep, &[AbsOp::Set(*u, "status".into(), "pending".into(), ts(1))]).unwrap();
        block_on(r.rep.commit_operations(ops)).unwrap();
    }
    let step = |r: &mut R, renumber: bool, out: &mut CaseOut| -> bool {
        let old = read_ws(&mut r.rep);
        let tasks = block_on(model::replica_tasks(&mut r.rep)).unwrap_or_default();
        block_on(r.rep.rebuild_working_set(renumber)).unwrap();
        let new = read_ws(&mut r.rep);
        out.count("rebuilds_checked", 1);
        if let Err((sig, msg)) = check_rebuild(&old, &new, &tasks, renumber) {
            out.violate(format!("rebuild/{sig}"), msg, replay.clone());
            return false;
        }
        true
    };
    if which == 0 {
        let ops = concretise(&mut r.rep, &[AbsOp::Set(t[1], "status".into(), "completed".into(), ts(2))]).unwrap();
        block_on(r.rep.commit_operations(ops)).unwrap();
        if !step(&mut r, false, out) {
            return;
        }
        step(&mut r, true, out);
    } else {
        let ops = concretise(&mut r.rep, &[AbsOp::Set(t[1], "status".into(), "completed".into(), ts(2))]).unwrap();
        block_on(r.rep.commit_operations(ops)).unwrap();
        if !step(&mut r, false, out) {
            return;
        }
        let ops = concretise(&mut r.rep, &[AbsOp::Delete(t[0])]).unwrap();
        block_on(r.rep.commit_operations(ops)).unwrap();
        step(&mut r, false, out);
    }
    out.nontrivial = Some(which + 1);
}

pub fn run(ctx: &Ctx) -> Outcome {
    let mut acc = Acc::default();
    let seed = ctx.seed;
    let only = ctx.replay.as_ref().and_then(|r| r.get("stratum").and_then(|s| s.as_str()).map(|s| s.to_string()));
    let only_idx = ctx.replay.as_ref().and_then(|r| r.get("index").and_then(|s| s.as_u64()));
    let want = |s: &str| only.as_deref().map(|o| o == s).unwrap_or(true);
    let range = |n: u64| -> (u64, u64) { match only_idx { Some(i) => (i, i + 1), None => (0, n) } };
    if want("corpus") {
        let (lo, hi) = range(2);
        run_cases(&mut acc, "corpus", hi - lo, |i| {
            let mut out = CaseOut::new();
            corpus_case(i + lo, &mut out);
            out
        });
    }
    let total = 341 * 3 * 2;
    for (name, kind, full) in [("core-mem", StoreKind::Mem, true), ("core-sqlite", StoreKind::Sqlite, ctx.tier == Tier::Thorough)] {
        if !want(name) {
            continue;
        }
        let (lo, hi) = range(total);
        let stride = if full { 1 } else { 7 };
        let n = (hi - lo).div_ceil(stride);
        run_cases(&mut acc, name, n, |j| {
            let mut out = CaseOut::new();
            core_case(name, lo + j * stride, kind, &mut out);
            out
        });
        if only.is_none() && full && !acc.truncated {
            acc.exhaustive_parts.push(format!("{name}: all prior working sets of length <=4 over {{pending, completed, purged, gap}} x {{0,1,2}} newcomers x both modes ({total} cases)"));
        }
    }
    if want("random") {
        let (lo, hi) = range(ctx.tier.pick(3000, 200_000));
        run_cases(&mut acc, "random", hi - lo, |i| {
            let mut out = CaseOut::new();
            random_case(i + lo, seed, &mut out);
            out
        });
    }
    if only.is_none() {
        acc.require("rebuilds_checked", 500, "too few rebuilds");
        acc.require("sync_rebuilds_checked", 50, "too few implicit rebuilds after sync");
        acc.require("tasks_turned_pending_in_commit", 50, "too few tasks turned pending by a commit");
    }
    Outcome {
        level: "exploration",
        rule: "exhaustive core: every prior working set of length <=4 with slots in {pending/recurring, completed/deleted, purged, gap} x {0,1,2} newcomers x both rebuild modes, built directly in storage (in-memory fully; SQLite sampled in quick, fully in thorough); random: sequences of status changes over all statuses (incl. unknown and missing), purges, expiry, syncs bringing remote status changes and purges, undo, both rebuild modes; every rebuild (explicit, after sync, after undo) judged by the specification model, every commit by the append-at-end rule; non-trivial = prior working set had a gap / stale / purged entry or newcomers; distinct by slot vector or trail".into(),
        exhaustive: None,
        acc,
        assumptions: vec![
            "trailing empty positions are not observable (both storages drop them by design)".into(),
            "newcomer positions are only required to be distinct and above every retained number".into(),
        ],
        extra: Default::default(),
    }
}

//! C06 — the SQLite replica store is crash-atomic and durable (engine E3).
//!
//! Actions {commit batch, undo, rebuild(renumber false/true), sync against an on-disk local
//! server} on a SQLite replica are interrupted at every storage call index: in-process (error,
//! dropped future) and in a child process that `abort()`s right before the call — or right after
//! a `commit` returned. The directory is then reopened through a fresh handle and its full dump
//! (tasks, unsynced operations, base version, working set, per-task operation logs) must equal the
//! state at some transaction boundary of the action: the before-state, the after-state (from a
//! fault-free run on a byte copy), or — for the two-transaction actions — the state between.
//! A second workload SIGKILLs a committing child at random instants and compares with the model
//! of the acknowledged commits.

use serde_json::json;
use std::collections::BTreeMap;
use std::io::{BufRead, BufReader, Write};
use std::process::{Command, Stdio};
use taskchampion::storage::{AccessMode, Storage};
use taskchampion::{Operation, Operations, Replica, ServerConfig, SqliteStorage};
use uuid::Uuid;

use crate::exec::{block_on, block_on_until};
use crate::model::{self, Tasks};
use crate::obs::{Dump, FaultKind, ObsCtl, ObservedStorage};
use crate::props::c04::dump_storage;
use crate::report::{run_cases, Acc, CaseOut, Ctx, Outcome};
use crate::rng::{fnv, Rng};
use crate::world::*;

#[derive(Clone, Debug, PartialEq)]
pub struct FullDump {
    pub d: Dump,
    pub task_ops: BTreeMap<Uuid, Vec<Operation>>,
}

fn uuids(seed: u64, idx: u64) -> Vec<Uuid> {
    let mut r = Rng::derive(seed, "c06-uuids", idx);
    (0..4).map(|_| r.uuid()).collect()
}

pub fn full_dump(dir: &std::path::Path, us: &[Uuid]) -> Result<FullDump, String> {
    let mut st = block_on(SqliteStorage::new(dir, AccessMode::ReadWrite, false)).map_err(|e| format!("reopen: {e}"))?;
    let d = dump_storage(&mut st)?;
    let mut task_ops = BTreeMap::new();
    {
        let mut txn = block_on(st.txn()).map_err(|e| e.to_string())?;
        for u in us {
            task_ops.insert(*u, block_on(txn.get_task_operations(*u)).map_err(|e| e.to_string())?);
        }
    }
    Ok(FullDump { d, task_ops })
}

/// Working-set newcomers appended by one rebuild follow SQLite row order; compare as "same set at
/// the same tail positions".
fn ws_equiv(a: &[Option<Uuid>], b: &[Option<Uuid>]) -> bool {
    a == b
}

fn dumps_equal(a: &Dump, b: &Dump) -> bool {
    a.tasks == b.tasks && a.unsynced == b.unsynced && a.base == b.base && ws_equiv(&a.ws, &b.ws)
}

fn copy_dir(from: &std::path::Path, to: &std::path::Path) {
    std::fs::create_dir_all(to).unwrap();
    for e in std::fs::read_dir(from).unwrap() {
        let e = e.unwrap();
        if e.file_type().unwrap().is_file() {
            std::fs::copy(e.path(), to.join(e.file_name())).unwrap();
        }
    }
}

pub const ACTIONS: &[&str] = &["commit", "undo", "rebuild0", "rebuild1", "sync"];

fn action_batch(seed: u64, idx: u64, rep: &mut Rep) -> Operations {
    let us = uuids(seed, idx);
    let mut rng = Rng::derive(seed, "c06-batch", idx);
    let mut abs = vec![AbsOp::UndoPoint];
    for n in 0..(2 + rng.below(5)) {
        let u = *rng.pick(&us);
        abs.push(match rng.below(8) {
            0 => AbsOp::Delete(u),
            1 => AbsOp::Remove(u, "p".into(), ts(5)),
            2 | 3 => AbsOp::Set(u, "status".into(), (*rng.pick(&["pending", "completed", "pending", "deleted"])).to_string(), ts(6)),
            _ => AbsOp::Set(u, format!("p{}", rng.below(3)), format!("act-{idx}-{n}"), ts(7)),
        });
    }
    concretise(rep, &abs).unwrap_or_default()
}

/// Perform the action on an open replica. Returns Err(text) only for harness-level trouble.
fn perform(action: &str, seed: u64, idx: u64, rep: &mut Rep, ctl: &ObsCtl, server_dir: &std::path::Path) -> Option<Result<(), String>> {
    match action {
        "commit" => {
            ctl.0.lock().unwrap().armed = false;
            let saved = ctl.0.lock().unwrap().fault.take();
            let ops = action_batch(seed, idx, rep);
            {
                let mut s = ctl.0.lock().unwrap();
                s.fault = saved;
                s.armed = true;
                s.calls = 0;
            }
            block_on_until(rep.commit_operations(ops), || ctl.parked()).map(|r| r.map_err(|e| e.to_string()))
        }
        "undo" => {
            ctl.0.lock().unwrap().armed = false;
            let saved = ctl.0.lock().unwrap().fault.take();
            let ops = block_on(rep.get_undo_operations()).unwrap_or_default();
            {
                let mut s = ctl.0.lock().unwrap();
                s.fault = saved;
                s.armed = true;
                s.calls = 0;
            }
            block_on_until(rep.commit_reversed_operations(ops), || ctl.parked()).map(|r| r.map(|_| ()).map_err(|e| e.to_string()))
        }
        "rebuild0" => block_on_until(rep.rebuild_working_set(false), || ctl.parked()).map(|r| r.map_err(|e| e.to_string())),
        "rebuild1" => block_on_until(rep.rebuild_working_set(true), || ctl.parked()).map(|r| r.map_err(|e| e.to_string())),
        "sync" => {
            let mut server = match block_on(ServerConfig::Local { server_dir: server_dir.to_path_buf() }.into_server()) {
                Ok(s) => s,
                Err(e) => return Some(Err(format!("HARNESS open local server: {e}"))),
            };
            block_on_until(rep.sync(&mut server, false), || ctl.parked()).map(|r| r.map_err(|e| e.to_string()))
        }
        "fresh-sync" => {
            // a brand-new replica syncs from an HTTP server that holds a snapshot and later versions
            let rt = match tokio::runtime::Builder::new_current_thread().enable_all().build() {
                Ok(rt) => rt,
                Err(e) => return Some(Err(format!("HARNESS tokio runtime: {e}"))),
            };
            let url = server_dir.to_str().unwrap_or("").to_string();
            let mut server = match rt.block_on(http_cfg(&url).into_server()) {
                Ok(s) => s,
                Err(e) => return Some(Err(format!("HARNESS open http server: {e}"))),
            };
            let ctl2 = ctl.clone();
            rt.block_on(async {
                tokio::select! {
                    r = rep.sync(&mut server, true) => Some(r.map_err(|e| e.to_string())),
                    _ = async { loop { if ctl2.parked() { break; } tokio::time::sleep(std::time::Duration::from_millis(1)).await; } } => None,
                }
            })
        }
        _ => Some(Err("HARNESS unknown action".into())),
    }
}

fn http_cfg(url: &str) -> ServerConfig {
    ServerConfig::Remote { url: url.to_string(), client_id: Uuid::from_u128(0xC06_4854_5450_4000_8000_0000_0000_0001), encryption_secret: b"c06-secret".to_vec() }
}

fn open_observed(dir: &std::path::Path) -> (Rep, ObsCtl) {
    let st = open_storage(StoreKind::Sqlite, Some(dir));
    let (obs, ctl) = ObservedStorage::new(st);
    (Replica::new(obs), ctl)
}

/// Child-process entry: `tcv worker c06 <replica_dir> <server_dir> <action> <seed> <idx> <k> <kind>`
pub fn worker(args: &[String]) -> i32 {
    let dir = std::path::PathBuf::from(&args[0]);
    let sdir = std::path::PathBuf::from(&args[1]);
    let action = args[2].as_str();
    let seed: u64 = args[3].parse().unwrap();
    let idx: u64 = args[4].parse().unwrap();
    let k: u64 = args[5].parse().unwrap();
    let kind = match args[6].as_str() {
        "abort" => FaultKind::Abort,
        "abort-after" => FaultKind::AbortAfter,
        _ => FaultKind::Err,
    };
    let (mut rep, ctl) = open_observed(&dir);
    ctl.arm(Some((k, kind)), false);
    ctl.0.lock().unwrap().no_dump = true;
    let r = perform(action, seed, idx, &mut rep, &ctl, &sdir);
    println!("DONE {:?}", r.map(|x| x.is_ok()));
    0
}

/// Child-process entry: `tcv worker c06kill <replica_dir> <seed> <idx>` — commit forever, ACK each.
pub fn worker_kill(args: &[String]) -> i32 {
    let dir = std::path::PathBuf::from(&args[0]);
    let seed: u64 = args[1].parse().unwrap();
    let idx: u64 = args[2].parse().unwrap();
    let st = block_on(SqliteStorage::new(&dir, AccessMode::ReadWrite, true)).expect("open");
    let mut rep = Replica::new(st);
    let out = std::io::stdout();
    for i in 0..100_000u64 {
        let ops = kill_batch(seed, idx, i);
        if block_on(rep.commit_operations(ops)).is_err() {
            return 3;
        }
        let mut o = out.lock();
        let _ = writeln!(o, "ACK {i}");
        let _ = o.flush();
    }
    0
}

/// State-independent batch i of the kill workload.
fn kill_batch(seed: u64, idx: u64, i: u64) -> Operations {
    let us = uuids(seed, idx);
    let own = Uuid::from_u128(0xC06_0000_0000_0000 + ((idx as u128) << 32) + i as u128);
    let mut v = vec![
        Operation::Create { uuid: own },
        Operation::Update { uuid: own, property: "n".into(), old_value: None, value: Some(i.to_string()), timestamp: ts(i as i64) },
        Operation::Update { uuid: own, property: "status".into(), old_value: None, value: Some(if i % 2 == 0 { "pending" } else { "completed" }.into()), timestamp: ts(i as i64) },
        Operation::Create { uuid: us[0] },
        Operation::Update { uuid: us[0], property: "last".into(), old_value: None, value: Some(i.to_string()), timestamp: ts(i as i64) },
    ];
    if i % 5 == 4 {
        v.push(Operation::Delete { uuid: own, old_task: Default::default() });
    }
    // pad so that a commit spans many pages now and then
    if i % 7 == 3 {
        v.push(Operation::Update { uuid: us[0], property: "pad".into(), old_value: None, value: Some("z".repeat(40_000)), timestamp: ts(i as i64) });
    }
    v
}

struct Prepared {
    _base: TempDir,
    rdir: std::path::PathBuf,
    /// server directory, or (fresh-sync) the URL of the in-process HTTP reference server
    sdir: std::path::PathBuf,
    us: Vec<Uuid>,
    http: Option<crate::httpref::HttpRefServer>,
}

/// Prior state for "fresh-sync": an HTTP reference server holding four versions and a snapshot at
/// the second, and an initialised but completely empty replica directory.
fn prepare_fresh(seed: u64, idx: u64) -> Result<Prepared, String> {
    crate::httpref::clear_proxy_env();
    let base = TempDir::new("c06fresh");
    let rdir = base.path().join("replica");
    std::fs::create_dir_all(&rdir).unwrap();
    drop(block_on(SqliteStorage::new(&rdir, AccessMode::ReadWrite, true)).map_err(|e| e.to_string())?);
    let us = uuids(seed, idx);
    let srv = crate::httpref::HttpRefServer::start()?;
    let rt = tokio::runtime::Builder::new_current_thread().enable_all().build().map_err(|e| e.to_string())?;
    let mut writer = Replica::new(taskchampion::storage::inmemory::InMemoryStorage::new());
    let mut h = rt.block_on(http_cfg(&srv.url()).into_server()).map_err(|e| e.to_string())?;
    let mut state = Tasks::new();
    for step in 0..4u64 {
        let mut ops = Operations::new();
        for (n, u) in us.iter().enumerate() {
            if step == 0 {
                ops.push(Operation::Create { uuid: *u });
                ops.push(Operation::Update { uuid: *u, property: "status".into(), old_value: None, value: Some(if n % 2 == 0 { "pending" } else { "completed" }.into()), timestamp: ts(1) });
            }
            ops.push(Operation::Update { uuid: *u, property: format!("p{step}"), old_value: None, value: Some(format!("v{idx}-{step}-{n}")), timestamp: ts(2 + step as i64) });
        }
        for o in &ops {
            if let Some(m) = model::from_operation(o) {
                model::apply(&mut state, &m);
            }
        }
        rt.block_on(writer.commit_operations(ops)).map_err(|e| e.to_string())?;
        rt.block_on(writer.sync(&mut h, true)).map_err(|e| e.to_string())?;
        if step == 1 {
            let latest = srv.state.lock().unwrap().clients.values().next().and_then(|c| c.versions.last().map(|v| v.0)).ok_or("no version on the http server")?;
            rt.block_on(h.add_snapshot(latest, crate::props::c12::encode_snapshot(&state))).map_err(|e| e.to_string())?;
        }
    }
    let url = std::path::PathBuf::from(srv.url());
    Ok(Prepared { _base: base, rdir, sdir: url, us, http: Some(srv) })
}

/// Build the prior state: a SQLite replica with history, and an on-disk local server that another
/// replica has pushed versions to (so that a sync has incoming and outgoing work).
fn prepare(seed: u64, idx: u64) -> Result<Prepared, String> {
    let base = TempDir::new("c06");
    let rdir = base.path().join("replica");
    let sdir = base.path().join("server");
    std::fs::create_dir_all(&rdir).unwrap();
    std::fs::create_dir_all(&sdir).unwrap();
    let us = uuids(seed, idx);
    let mut rng = Rng::derive(seed, "c06-prior", idx);
    {
        let st = block_on(SqliteStorage::new(&rdir, AccessMode::ReadWrite, true)).map_err(|e| e.to_string())?;
        let mut rep = Replica::new(st);
        let mut other = Replica::new(taskchampion::storage::inmemory::InMemoryStorage::new());
        let mut srv_a = block_on(ServerConfig::Local { server_dir: sdir.clone() }.into_server()).map_err(|e| e.to_string())?;
        let mut srv_b = block_on(ServerConfig::Local { server_dir: sdir.clone() }.into_server()).map_err(|e| e.to_string())?;
        let commit = |rep: &mut Replica<SqliteStorage>, ops: Operations| block_on(rep.commit_operations(ops)).map_err(|e| e.to_string());
        // initial content, synced
        let mut ops = Operations::new();
        for (n, u) in us.iter().enumerate() {
            ops.push(Operation::Create { uuid: *u });
            ops.push(Operation::Update { uuid: *u, property: "status".into(), old_value: None, value: Some(if n % 2 == 0 { "pending" } else { "completed" }.into()), timestamp: ts(1) });
            ops.push(Operation::Update { uuid: *u, property: "p".into(), old_value: None, value: Some(format!("init{n}")), timestamp: ts(1) });
        }
        commit(&mut rep, ops)?;
        block_on(rep.sync(&mut srv_a, false)).map_err(|e| e.to_string())?;
        block_on(other.sync(&mut srv_b, false)).map_err(|e| e.to_string())?;
        // the other replica pushes a change (incoming for us later)
        let mut ops = Operations::new();
        ops.push(Operation::Update { uuid: us[1], property: "q".into(), old_value: None, value: Some("from-other".into()), timestamp: ts(3) });
        ops.push(Operation::Update { uuid: us[2], property: "status".into(), old_value: Some("pending".into()), value: Some("pending".into()), timestamp: ts(3) });
        block_on(other.commit_operations(ops)).map_err(|e| e.to_string())?;
        block_on(other.sync(&mut srv_b, false)).map_err(|e| e.to_string())?;
        // local pending work with an undo point; working set with a stale entry and a gap
        let mut ops = Operations::new();
        ops.push(Operation::UndoPoint);
        ops.push(Operation::Update { uuid: us[0], property: "status".into(), old_value: Some("pending".into()), value: Some("completed".into()), timestamp: ts(4) });
        ops.push(Operation::Update { uuid: us[3], property: "status".into(), old_value: Some("completed".into()), value: Some("pending".into()), timestamp: ts(4) });
        commit(&mut rep, ops)?;
        if rng.chance(1, 2) {
            block_on(rep.rebuild_working_set(false)).map_err(|e| e.to_string())?;
        }
        let mut ops = Operations::new();
        ops.push(Operation::UndoPoint);
        ops.push(Operation::Update { uuid: us[1], property: "p".into(), old_value: Some("init1".into()), value: Some(format!("local-{idx}")), timestamp: ts(5) });
        if rng.chance(1, 2) {
            ops.push(Operation::Delete { uuid: us[2], old_task: [("status".to_string(), "pending".to_string()), ("p".to_string(), "init2".to_string())].into_iter().collect() });
        }
        commit(&mut rep, ops)?;
    }
    Ok(Prepared { _base: base, rdir, sdir, us, http: None })
}

struct Reference {
    before: FullDump,
    after: FullDump,
    boundaries: Vec<Dump>,
    calls: u64,
    commit_calls: Vec<u64>,
}

fn reference(p: &Prepared, action: &str, seed: u64, idx: u64) -> Result<Reference, String> {
    let before = full_dump(&p.rdir, &p.us)?;
    let scratch = TempDir::new("c06ref");
    let r2 = scratch.path().join("replica");
    let s2 = scratch.path().join("server");
    copy_dir(&p.rdir, &r2);
    let s2 = if p.http.is_some() { p.sdir.clone() } else { copy_dir(&p.sdir, &s2); s2 };
    let (calls, boundaries, commit_calls);
    {
        let (mut rep, ctl) = open_observed(&r2);
        ctl.0.lock().unwrap().keep_history = true;
        ctl.arm(None, true);
        match perform(action, seed, idx, &mut rep, &ctl, &s2) {
            Some(Ok(())) => {}
            Some(Err(e)) => return Err(format!("fault-free action failed: {e}")),
            None => return Err("fault-free action parked".into()),
        }
        let (c, _, names) = ctl.disarm();
        calls = c;
        commit_calls = names.iter().enumerate().filter(|(_, n)| **n == "commit").map(|(i, _)| i as u64 + 1).collect::<Vec<_>>();
        boundaries = ctl.0.lock().unwrap().history.clone();
    }
    let after = full_dump(&r2, &p.us)?;
    Ok(Reference { before, after, boundaries, calls, commit_calls })
}

fn core_eq(a: &Dump, b: &Dump) -> bool {
    a.tasks == b.tasks && a.unsynced == b.unsynced && a.base == b.base
}

/// The only states an interrupted action may leave behind: the complete before-state, the complete
/// after-state, or — only for sync and undo, which are documented as "the action proper, then a
/// non-renumbering working-set rebuild" — tasks / operations / base version entirely after with
/// the working set still before. Allowed states are *not* derived from wherever the implementation
/// happens to commit: an extra commit in the middle of an action is exactly what must be caught.
fn judge(got: &FullDump, r: &Reference, must_be_boundary: Option<usize>, action: &str) -> Result<&'static str, String> {
    // only these are documented as two steps (the action proper, then a working-set rebuild);
    // commit_operations and rebuild_working_set are one transaction each
    let two_step = matches!(action, "undo" | "sync" | "fresh-sync");
    let detail = |got: &FullDump| {
        format!(
            "vs before: tasks [{}] unsynced {}→{} base changed: {} ws {:?}→{:?}; vs after: tasks [{}] unsynced {}→{} base differs: {}",
            model::diff_tasks(&got.d.tasks, &r.before.d.tasks),
            r.before.d.unsynced.len(),
            got.d.unsynced.len(),
            got.d.base != r.before.d.base,
            r.before.d.ws,
            got.d.ws,
            model::diff_tasks(&got.d.tasks, &r.after.d.tasks),
            r.after.d.unsynced.len(),
            got.d.unsynced.len(),
            got.d.base != r.after.d.base,
        )
    };
    if let Some(c) = must_be_boundary {
        // killed right after commit #c returned Ok: that commit must be fully visible
        let last = c + 1 == r.boundaries.len();
        if last {
            if dumps_equal(&got.d, &r.after.d) {
                return Ok("after-commit");
            }
            return Err(format!("after the last commit (#{}) returned Ok and the process died, the reopened store is not the after-state: {}", c + 1, detail(got)));
        }
        if two_step && core_eq(&got.d, &r.after.d) && got.d.ws == r.before.d.ws {
            return Ok("after-commit");
        }
        return Err(format!("after commit #{} of {} returned Ok and the process died, tasks / operations / base version are not the complete after-state (the action has a commit in its middle?): {}", c + 1, r.boundaries.len(), detail(got)));
    }
    if *got == r.before {
        return Ok("before");
    }
    if *got == r.after {
        return Ok("after");
    }
    if two_step && core_eq(&got.d, &r.after.d) && got.d.ws == r.before.d.ws && got.task_ops == r.after.task_ops {
        return Ok("between-transactions");
    }
    Err(format!("reopened store is neither the complete before-state nor the complete after-state: {}", detail(got)))
}

/// Latest version id stored by the on-disk local server (version ids are random per run, so the
/// base version of a faulted run is compared through "is the latest version of *its* server").
fn local_latest(sdir: &std::path::Path) -> Option<Uuid> {
    let con = rusqlite::Connection::open(sdir.join("taskchampion-local-sync-server.sqlite3")).ok()?;
    let s: String = con.query_row("SELECT value FROM data WHERE key = 'latest_version_id' LIMIT 1", [], |r| r.get(0)).ok()?;
    Uuid::parse_str(&s).ok()
}

fn exe() -> std::path::PathBuf {
    std::env::current_exe().expect("current exe")
}

fn sweep_case(i: u64, seed: u64, child_every: u64, fresh: bool, out: &mut CaseOut) {
    let action = if fresh { "fresh-sync" } else { ACTIONS[(i % ACTIONS.len() as u64) as usize] };
    let idx = i;
    let replay = json!({"stratum": if fresh { "fresh-sync" } else { "sweep" }, "index": i, "action": action});
    out.evaluations = 0;
    let p = match if fresh { prepare_fresh(seed, idx) } else { prepare(seed, idx) } {
        Ok(p) => p,
        Err(e) => {
            out.inconclusive = Some(format!("prepare: {e}"));
            return;
        }
    };
    let r = match reference(&p, action, seed, idx) {
        Ok(r) => r,
        Err(e) => {
            out.inconclusive = Some(format!("reference: {e}"));
            return;
        }
    };
    if r.before == r.after {
        out.count("actions_without_effect", 1);
    }
    let mut outcomes: BTreeMap<&'static str, u64> = BTreeMap::new();
    for k in 1..=r.calls {
        for mode in ["err", "drop", "abort", "abort-after"] {
            let is_commit = r.commit_calls.contains(&k);
            if mode == "abort-after" && !is_commit {
                continue;
            }
            let child = mode == "abort" || mode == "abort-after";
            if child && !is_commit && child_every > 1 && (k + i) % child_every != 0 {
                continue;
            }
            out.evaluations += 1;
            let scratch = TempDir::new("c06run");
            let r2 = scratch.path().join("replica");
            let s2 = scratch.path().join("server");
            copy_dir(&p.rdir, &r2);
            let s2 = if p.http.is_some() { p.sdir.clone() } else { copy_dir(&p.sdir, &s2); s2 };
            if child {
                let st = Command::new(exe())
                    .args(["worker", "c06", r2.to_str().unwrap(), s2.to_str().unwrap(), action, &seed.to_string(), &idx.to_string(), &k.to_string(), mode])
                    .stdout(Stdio::null())
                    .stderr(Stdio::null())
                    .status();
                match st {
                    Ok(s) if s.success() => {
                        // the fault point was not reached in the child: nothing to judge
                        out.count("child_fault_not_reached", 1);
                        continue;
                    }
                    Ok(_) => out.count("child_aborts", 1),
                    Err(e) => {
                        out.inconclusive = Some(format!("spawn: {e}"));
                        return;
                    }
                }
            } else {
                let (mut rep, ctl) = open_observed(&r2);
                ctl.arm(Some((k, if mode == "err" { FaultKind::Err } else { FaultKind::Park })), false);
                ctl.0.lock().unwrap().no_dump = true;
                let res = perform(action, seed, idx, &mut rep, &ctl, &s2);
                let (_, hit, _) = ctl.disarm();
                if !hit {
                    out.count("fault_not_reached", 1);
                }
                if let Some(Err(e)) = &res {
                    if e.starts_with("HARNESS") {
                        out.inconclusive = Some(e.clone());
                        return;
                    }
                }
                drop(rep);
                out.count("in_process_faults", 1);
            }
            let got = match full_dump(&r2, &p.us) {
                Ok(mut g) => {
                    if action == "sync" && g.d.base != r.before.d.base && Some(g.d.base) == local_latest(&s2) {
                        g.d.base = r.after.d.base;
                    }
                    g
                }
                Err(e) => {
                    out.violate(format!("reopen-failed/{action}/{mode}"), format!("store cannot be reopened after {mode} at call {k}: {e}"), replay.clone());
                    return;
                }
            };
            let must = if mode == "abort-after" { r.commit_calls.iter().position(|c| *c == k) } else { None };
            match judge(&got, &r, must, action) {
                Ok(which) => *outcomes.entry(which).or_insert(0) += 1,
                Err(e) => {
                    let mut rp = replay.clone();
                    rp["k"] = json!(k);
                    rp["mode"] = json!(mode);
                    out.violate(format!("not-atomic/{action}/{mode}"), format!("{mode} at storage call {k}/{}: {e}", r.calls), rp);
                    return;
                }
            }
        }
    }
    for (k, v) in &outcomes {
        match *k {
            "before" => out.count("reopened_in_before_state", *v),
            "after" => out.count("reopened_in_after_state", *v),
            "between-transactions" => out.count("reopened_between_transactions", *v),
            _ => out.count("reopened_after_acked_commit", *v),
        }
    }
    out.count("storage_calls_swept", r.calls);
    if r.before != r.after {
        out.nontrivial = Some(fnv(format!("{action}{i}").as_bytes()));
    }
    if i < ACTIONS.len() as u64 {
        out.sample = Some(json!({"action": action, "storage_calls": r.calls, "commit_call_indices": r.commit_calls, "transaction_boundaries": r.boundaries.len(), "outcomes": outcomes}));
    }
}

fn kill_case(i: u64, seed: u64, out: &mut CaseOut) {
    let replay = json!({"stratum": "kill", "index": i});
    let base = TempDir::new("c06kill");
    let dir = base.path().join("replica");
    std::fs::create_dir_all(&dir).unwrap();
    let mut rng = Rng::derive(seed, "c06-kill", i);
    let mut child = match Command::new(exe()).args(["worker", "c06kill", dir.to_str().unwrap(), &seed.to_string(), &i.to_string()]).stdout(Stdio::piped()).stderr(Stdio::null()).spawn() {
        Ok(c) => c,
        Err(e) => {
            out.inconclusive = Some(format!("spawn: {e}"));
            return;
        }
    };
    let stdout = child.stdout.take().unwrap();
    let acked = std::sync::Arc::new(std::sync::atomic::AtomicI64::new(-1));
    let acked2 = acked.clone();
    let reader = std::thread::spawn(move || {
        for line in BufReader::new(stdout).lines().map_while(Result::ok) {
            if let Some(n) = line.strip_prefix("ACK ").and_then(|s| s.parse::<i64>().ok()) {
                acked2.store(n, std::sync::atomic::Ordering::SeqCst);
            }
        }
    });
    // kill after a random number of acknowledged commits plus a random sub-commit delay
    let target = rng.below(40) as i64;
    let deadline = std::time::Instant::now() + std::time::Duration::from_secs(30);
    while acked.load(std::sync::atomic::Ordering::SeqCst) < target && std::time::Instant::now() < deadline {
        std::thread::sleep(std::time::Duration::from_micros(100));
    }
    std::thread::sleep(std::time::Duration::from_micros(rng.below(3000) as u64));
    unsafe {
        libc::kill(child.id() as i32, libc::SIGKILL);
    }
    let _ = child.wait();
    let _ = reader.join();
    let a = acked.load(std::sync::atomic::Ordering::SeqCst);
    if a < 0 {
        out.count("killed_before_first_ack", 1);
    }
    // model after the acknowledged commits, optionally plus the one in flight
    let us = uuids(seed, i);
    let mut st = match block_on(SqliteStorage::new(&dir, AccessMode::ReadWrite, true)) {
        Ok(s) => s,
        Err(e) => {
            out.violate("kill/reopen-failed".to_string(), format!("{e}"), replay);
            return;
        }
    };
    let got = match dump_storage(&mut st) {
        Ok(d) => d,
        Err(e) => {
            out.violate("kill/reopen-failed".to_string(), e, replay);
            return;
        }
    };
    let _ = us;
    let mut ok = false;
    for extra in 0..=1i64 {
        let n = a + 1 + extra;
        let mut t = Tasks::new();
        let mut ops: Vec<Operation> = vec![];
        for c in 0..n.max(0) as u64 {
            for op in kill_batch(seed, i, c) {
                if let Some(m) = model::from_operation(&op) {
                    model::apply(&mut t, &m);
                }
                ops.push(op);
            }
        }
        if got.tasks == t && got.unsynced == ops {
            ok = true;
            out.count(if extra == 0 { "kill_state_equals_acked" } else { "kill_state_equals_acked_plus_inflight" }, 1);
            break;
        }
    }
    if !ok {
        out.violate(
            "kill/lost-or-partial-commit".to_string(),
            format!("after SIGKILL with {} acknowledged commits the store holds {} tasks / {} operations: neither the acknowledged commits nor those plus the one in flight", a + 1, got.tasks.len(), got.unsynced.len()),
            replay,
        );
        return;
    }
    out.count("kills", 1);
    out.nontrivial = Some(fnv(format!("{i}-{a}").as_bytes()));
    if i < 2 {
        out.sample = Some(json!({"acknowledged_commits": a + 1, "tasks_after_reopen": got.tasks.len(), "operations_after_reopen": got.unsynced.len()}));
    }
}

/// An action that fails for a reason other than a storage fault: an undo whose list contains an
/// operation that cannot be reversed (an update recorded against a task the same batch had already
/// deleted — ignored when committed, but logged), preceded in reversal order by operations that can.
/// Whatever the call reports, unless it reports success the reopened store must be the before-state.
fn failed_undo_case(i: u64, seed: u64, out: &mut CaseOut) {
    let replay = json!({"stratum": "failed-undo", "index": i});
    let dir = TempDir::new("c06fu");
    let rdir = dir.path().join("replica");
    std::fs::create_dir_all(&rdir).unwrap();
    let us = uuids(seed, i);
    let (x, y, z) = (us[0], us[1], us[2]);
    let mut rng = Rng::derive(seed, "c06-failed-undo", i);
    let harness = |e: String, out: &mut CaseOut| out.inconclusive = Some(format!("HARNESS failed-undo prior: {e}"));
    {
        let (mut rep, _ctl) = open_observed(&rdir);
        let prior = concretise(&mut rep, &[AbsOp::Set(x, "description".into(), "X".into(), ts(1)), AbsOp::Set(x, "p".into(), "1".into(), ts(1)), AbsOp::Set(y, "description".into(), "Y".into(), ts(1)), AbsOp::Set(y, "status".into(), "pending".into(), ts(1))]);
        let prior = match prior {
            Ok(p) => p,
            Err(e) => return harness(e, out),
        };
        if let Err(e) = block_on(rep.commit_operations(prior)) {
            return harness(e.to_string(), out);
        }
        let old_x = match block_on(rep.get_task_data(x)) {
            Ok(Some(t)) => t.iter().map(|(k, v)| (k.clone(), v.clone())).collect(),
            _ => return harness("task x missing".into(), out),
        };
        let mut ops = Operations::new();
        ops.push(Operation::UndoPoint);
        if rng.chance(1, 2) {
            ops.push(Operation::Update { uuid: y, property: "q".into(), old_value: None, value: Some("lead".into()), timestamp: ts(2) });
        }
        ops.push(Operation::Delete { uuid: x, old_task: old_x });
        // recorded through a stale handle: x no longer exists at this point of the batch
        ops.push(Operation::Update { uuid: x, property: "p".into(), old_value: Some("1".into()), value: Some("stale".into()), timestamp: ts(3) });
        ops.push(Operation::Update { uuid: y, property: "description".into(), old_value: Some("Y".into()), value: Some("Y2".into()), timestamp: ts(4) });
        if rng.chance(1, 2) {
            ops.push(Operation::Create { uuid: z });
            ops.push(Operation::Update { uuid: z, property: "status".into(), old_value: None, value: Some("pending".into()), timestamp: ts(5) });
        }
        if let Err(e) = block_on(rep.commit_operations(ops)) {
            return harness(e.to_string(), out);
        }
    }
    let before = match full_dump(&rdir, &us) {
        Ok(d) => d,
        Err(e) => return harness(e, out),
    };
    let result = {
        let (mut rep, _ctl) = open_observed(&rdir);
        let undo = block_on(rep.get_undo_operations()).unwrap_or_default();
        block_on(rep.commit_reversed_operations(undo)).map_err(|e| e.to_string())
    };
    let after = match full_dump(&rdir, &us) {
        Ok(d) => d,
        Err(e) => {
            out.violate("cannot-reopen", format!("after a failed undo: {e}"), replay);
            return;
        }
    };
    out.count("failed_undo_cases", 1);
    match result {
        Ok(true) => out.count("irreversible_undo_reported_success", 1),
        other => {
            if !(dumps_equal(&after.d, &before.d) && after.task_ops == before.task_ops) {
                out.violate(
                    "not-atomic/failed-undo/partial-effect",
                    format!("undo reported {other:?} but the reopened store is not the before-state: tasks {}; unsynced operations {} -> {}", model::diff_tasks(&after.d.tasks, &before.d.tasks), before.d.unsynced.len(), after.d.unsynced.len()),
                    replay,
                );
                return;
            }
            out.count("failed_undo_left_no_trace", 1);
            out.nontrivial = Some(fnv(format!("failed-undo{i}").as_bytes()));
        }
    }
}

pub fn run(ctx: &Ctx) -> Outcome {
    let mut acc = Acc::default();
    let seed = ctx.seed;
    let only = ctx.replay.as_ref().and_then(|r| r.get("stratum").and_then(|s| s.as_str()).map(|s| s.to_string()));
    let only_idx = ctx.replay.as_ref().and_then(|r| r.get("index").and_then(|s| s.as_u64()));
    let want = |s: &str| only.as_deref().map(|o| o == s).unwrap_or(true);
    let range = |n: u64| -> (u64, u64) { match only_idx { Some(i) => (i, i + 1), None => (0, n) } };
    if want("sweep") {
        let (lo, hi) = range(ctx.tier.pick(40, 400));
        // quick: a child process for every commit call and every 4th other call; thorough: all
        let child_every = if ctx.tier == crate::report::Tier::Quick { 4 } else { 1 };
        run_cases(&mut acc, "sweep", hi - lo, |i| {
            let mut out = CaseOut::new();
            sweep_case(i + lo, seed, child_every, false, &mut out);
            out
        });
    }
    if want("fresh-sync") {
        let (lo, hi) = range(ctx.tier.pick(3, 40));
        let child_every = if ctx.tier == crate::report::Tier::Quick { 4 } else { 1 };
        run_cases(&mut acc, "fresh-sync", hi - lo, |i| {
            let mut out = CaseOut::new();
            sweep_case(i + lo, seed, child_every, true, &mut out);
            out
        });
    }
    if want("failed-undo") {
        let (lo, hi) = range(ctx.tier.pick(12, 200));
        run_cases(&mut acc, "failed-undo", hi - lo, |i| {
            let mut out = CaseOut::new();
            failed_undo_case(i + lo, seed, &mut out);
            out
        });
    }
    if want("kill") {
        let (lo, hi) = range(ctx.tier.pick(60, 2000));
        run_cases(&mut acc, "kill", hi - lo, |i| {
            let mut out = CaseOut::new();
            kill_case(i + lo, seed, &mut out);
            out
        });
    }
    if only.is_none() {
        acc.require("child_aborts", 40, "too few child-process aborts");
        acc.require("in_process_faults", 200, "too few in-process faults");
        acc.require("reopened_after_acked_commit", 10, "too few kills right after a successful commit");
        acc.require("kills", 20, "too few SIGKILL cases");
        acc.require("failed_undo_cases", 5, "too few undos that fail for a non-storage reason");
        acc.require("reopened_between_transactions", 1, "never observed a stop between the two transactions of sync/undo");
    }
    Outcome {
        level: "fault_enumeration",
        rule: "sweep: for each of {commit, undo, rebuild(false), rebuild(true), sync} on a prepared SQLite replica, and for the first sync of a brand-new replica from an HTTP server holding a snapshot and later versions (fresh-sync) (pending work, undo points, stale working-set entries, incoming versions on an on-disk local server): every storage call index x {error, dropped future} in-process and x {abort() before the call} in a child process (quick: every commit call and every 4th other call), plus abort() right after every commit returned; reopened store compared with before / after / transaction-boundary dumps. failed-undo: an undo list containing an operation that cannot be reversed (update of a task deleted earlier in the batch) after ones that can: unless success is reported the reopened store must be the before-state. kill: a child commits state-independent batches and ACKs each, SIGKILL at random instants, reopened store compared with the model of the acknowledged commits (+ optionally the one in flight). evaluations = faulted runs; non-trivial = the action changes the store; distinct by (action, case)".into(),
        exhaustive: None,
        acc,
        assumptions: vec![
            "process death only (abort / SIGKILL); lost page cache or torn writes cannot be produced here".into(),
            "sync and undo are two storage transactions each (action, then a non-renumbering working-set rebuild); a stop between them may leave the state between the two, which is a transaction boundary".into(),
        ],
        extra: Default::default(),
    }
}

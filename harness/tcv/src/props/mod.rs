use crate::report::{Ctx, Outcome};

pub mod c01;

pub fn dispatch(ctx: &Ctx) -> Option<Outcome> {
    Some(match ctx.id.as_str() {
        "C01" => c01::run(ctx),
        _ => return None,
    })
}

/// Child-process entry point (`tcv worker <kind> ...`) for crash / multi-process workloads.
pub fn worker_main(_args: &[String]) -> i32 {
    64
}

use crate::report::{Ctx, Outcome};

pub mod c01;
pub mod c05;
pub mod c12;
pub mod c14;

pub fn dispatch(ctx: &Ctx) -> Option<Outcome> {
    Some(match ctx.id.as_str() {
        "C01" => c01::run(ctx),
        "C05" => c05::run(ctx),
        "C12" => c12::run(ctx),
        "C14" => c14::run(ctx),
        _ => return None,
    })
}

/// Child-process entry point (`tcv worker <kind> ...`) for crash / multi-process workloads.
pub fn worker_main(_args: &[String]) -> i32 {
    64
}

//! C05 — local commits are atomic and follow the documented operation model (E1 + E3).
//!
//! Oracle: the reference model applies the batch one operation at a time under the documented
//! rules; the unsynced list must be `previous ++ batch`; `num_local_operations`, `num_undo_points`
//! and `get_undo_operations` must agree with it; the replica invariant must hold; and a commit that
//! fails at any storage call (error injected through `ObservedStorage`) must leave no trace.

use serde_json::json;
use taskchampion::{Operation, Operations};
use uuid::Uuid;

use crate::exec::block_on;
use crate::model::{self, Tasks};
use crate::obs::FaultKind;
use crate::report::{run_cases, Acc, CaseOut, Ctx, Outcome, Tier};
use crate::rng::{fnv, Rng};
use crate::srv::ChainRef;
use crate::world::*;

fn u(n: u128) -> Uuid {
    Uuid::from_u128(0x5555_0000_0000_4000_8000_0000_0000_0000u128 + n)
}

fn alphabet() -> Vec<Operation> {
    let mut v = vec![Operation::UndoPoint];
    for t in 1..=2u128 {
        v.push(Operation::Create { uuid: u(t) });
        v.push(Operation::Delete { uuid: u(t), old_task: Default::default() });
        for p in ["p1", "p2"] {
            v.push(Operation::Update { uuid: u(t), property: p.into(), old_value: None, value: Some(format!("n-{t}-{p}")), timestamp: ts(7) });
            v.push(Operation::Update { uuid: u(t), property: p.into(), old_value: Some("stale".into()), value: None, timestamp: ts(8) });
        }
        // recorded old value equal to the new value although the stored value may differ (a stale
        // handle): the recorded old value is for undo only and must not influence the effect
        v.push(Operation::Update { uuid: u(t), property: "p1".into(), old_value: Some(format!("same-{t}")), value: Some(format!("same-{t}")), timestamp: ts(9) });
        v.push(Operation::Update { uuid: u(t), property: "p1".into(), old_value: None, value: None, timestamp: ts(10) });
    }
    v
}

/// Prior states, built through the real API.
fn build_prior(which: u64, kind: StoreKind, chain: &ChainRef) -> Result<R, String> {
    let mut r = new_replica(0, kind, chain);
    let commit = |r: &mut R, abs: Vec<AbsOp>| -> Result<(), String> {
        let ops = concretise(&mut r.rep, &abs)?;
        block_on(r.rep.commit_operations(ops)).map_err(|e| format!("prior commit: {e}"))
    };
    match which {
        0 => {}
        1 => commit(&mut r, vec![AbsOp::Set(u(1), "p1".into(), "old1".into(), ts(1))])?,
        2 => {
            commit(&mut r, vec![AbsOp::Set(u(1), "p1".into(), "a".into(), ts(1)), AbsOp::Set(u(1), "p2".into(), "b".into(), ts(1))])?;
            commit(&mut r, vec![AbsOp::UndoPoint, AbsOp::Set(u(2), "p1".into(), "c".into(), ts(2)), AbsOp::Set(u(2), "p2".into(), "d".into(), ts(2))])?;
        }
        _ => {
            // synced base + pending operations
            commit(&mut r, vec![AbsOp::Set(u(1), "p1".into(), "synced".into(), ts(1)), AbsOp::Set(u(2), "p2".into(), "synced2".into(), ts(1))])?;
            sync(&mut r, chain, false).map_err(|e| format!("prior sync: {e}"))?;
            commit(&mut r, vec![AbsOp::UndoPoint, AbsOp::Remove(u(1), "p1".into(), ts(3)), AbsOp::Delete(u(2))])?;
        }
    }
    Ok(r)
}

fn expected_undo(unsynced: &[Operation]) -> Vec<Operation> {
    match unsynced.iter().rposition(|o| o.is_undo_point()) {
        Some(i) => unsynced[i..].to_vec(),
        None => unsynced.to_vec(),
    }
}

fn check_commit(tag: &str, index: u64, r: &mut R, chain: &ChainRef, batch: &Operations, faults: bool, out: &mut CaseOut) {
    let replay = json!({"stratum": tag, "index": index, "batch": show_ops(batch)});
    let before = r.ctl.last();
    let before_tasks: Tasks = match block_on(model::replica_tasks(&mut r.rep)) {
        Ok(t) => t,
        Err(e) => {
            out.inconclusive = Some(e);
            return;
        }
    };
    if before_tasks != before.tasks {
        out.violate("dump-vs-read", "commit-time dump differs from all_task_data", replay);
        return;
    }
    // (a) atomicity: an error at any storage call leaves no trace
    if faults && !batch.is_empty() {
        r.ctl.arm(None, false);
        // counting run on a throw-away replica would need the same prior; instead count while
        // failing at call 10^9 (never reached) in a transaction that we make fail at its commit:
        r.ctl.disarm();
        let mut k = 1u64;
        loop {
            r.ctl.arm(Some((k, FaultKind::Err)), true);
            let res = block_on(r.rep.commit_operations(batch.clone()));
            let (_calls, hit, names) = r.ctl.disarm();
            if !hit {
                // the commit went through without reaching call k: all calls have been covered
                if res.is_err() {
                    out.violate("commit-error", format!("fault-free commit failed: {:?}", res.err().map(|e| e.to_string())), replay.clone());
                    return;
                }
                out.count("fault_free_commits", 1);
                break;
            }
            out.count("fault_points", 1);
            out.evaluations += 1;
            let at = names.last().copied().unwrap_or("?");
            if res.is_ok() {
                out.violate(format!("atomicity/ok-despite-fault@{at}"), format!("commit returned Ok although storage call {k} ({at}) failed"), replay.clone());
                return;
            }
            let after = block_on(model::replica_tasks(&mut r.rep)).unwrap_or_default();
            let ops_after = block_on(r.rep.num_local_operations()).unwrap_or(usize::MAX);
            let undo_after = block_on(r.rep.get_undo_operations()).unwrap_or_default();
            let ws_after = block_on(r.rep.working_set()).map(|w| w.iter().collect::<Vec<_>>()).unwrap_or_default();
            let ws_before: Vec<(usize, Uuid)> = before.ws.iter().enumerate().filter_map(|(i, x)| x.map(|x| (i, x))).collect();
            if after != before_tasks
                || ops_after != before.unsynced.iter().filter(|o| !o.is_undo_point()).count()
                || undo_after != expected_undo(&before.unsynced)
                || ws_after != ws_before
                || r.ctl.last() != before
            {
                out.violate(
                    format!("atomicity/partial-effect@{at}"),
                    format!("failed commit (storage call {k}: {at}) left a trace: tasks {}", model::diff_tasks(&after, &before_tasks)),
                    replay.clone(),
                );
                return;
            }
            k += 1;
            if k > 400 {
                out.inconclusive = Some("more than 400 storage calls in one commit".into());
                return;
            }
        }
    } else {
        if let Err(e) = block_on(r.rep.commit_operations(batch.clone())) {
            out.violate("commit-error", format!("commit failed: {e:#}"), replay.clone());
            return;
        }
    }
    // (b) effect == one-at-a-time model
    let mut expect = before_tasks.clone();
    for op in batch.iter() {
        if let Some(m) = model::from_operation(op) {
            model::apply(&mut expect, &m);
        }
    }
    let got = block_on(model::replica_tasks(&mut r.rep)).unwrap_or_default();
    if got != expect {
        out.violate("effect-differs-from-model", format!("after commit: {}", model::diff_tasks(&got, &expect)), replay.clone());
        return;
    }
    // (c) recorded in order as unsynced operations
    let after = r.ctl.last();
    let mut exp_unsynced = before.unsynced.clone();
    exp_unsynced.extend(batch.iter().cloned());
    if batch.is_empty() {
        // an empty commit is a no-op (no transaction at all)
    } else if after.unsynced != exp_unsynced {
        out.violate("unsynced-list", format!("unsynced list is not previous ++ batch: got {:?} want {:?}", show_ops(&after.unsynced), show_ops(&exp_unsynced)), replay.clone());
        return;
    }
    let n_ops = block_on(r.rep.num_local_operations()).unwrap_or(usize::MAX);
    let n_undo = block_on(r.rep.num_undo_points()).unwrap_or(usize::MAX);
    let undo = block_on(r.rep.get_undo_operations()).unwrap_or_default();
    if n_ops != exp_unsynced.iter().filter(|o| !o.is_undo_point()).count()
        || n_undo != exp_unsynced.iter().filter(|o| o.is_undo_point()).count()
        || undo != expected_undo(&exp_unsynced)
    {
        out.violate("operation-counters", format!("num_local_operations={n_ops} num_undo_points={n_undo} undo={:?} disagree with {:?}", show_ops(&undo), show_ops(&exp_unsynced)), replay.clone());
        return;
    }
    // per-task operation log contains the batch's operations for that task, in order, at its end
    for t in [u(1), u(2)] {
        let log = block_on(r.rep.get_task_operations(t)).unwrap_or_default();
        let want: Vec<&Operation> = batch.iter().filter(|o| o.get_uuid() == Some(t)).collect();
        let tail: Vec<&Operation> = log.iter().rev().take(want.len()).collect::<Vec<_>>().into_iter().rev().collect();
        if tail != want {
            out.violate("task-operation-log", format!("get_task_operations({}) does not end with the batch's operations", model::su(t)), replay.clone());
            return;
        }
    }
    // (d) replica invariant
    if let Err(e) = check_invariant(r, chain) {
        out.violate("replica-invariant/after-commit", e, replay.clone());
        return;
    }
    out.count("commits_checked", 1);
}

fn nontrivial(batch: &Operations, before: &Tasks) -> bool {
    // an operation on a missing task, a create of an existing one, or create/delete of one task
    // repeated inside the batch
    let mut t = before.clone();
    let mut hit = false;
    for op in batch {
        match op {
            Operation::Create { uuid } => hit |= t.contains_key(uuid),
            Operation::Delete { uuid, .. } | Operation::Update { uuid, .. } => hit |= !t.contains_key(uuid),
            _ => {}
        }
        if let Some(m) = model::from_operation(op) {
            model::apply(&mut t, &m);
        }
    }
    hit || batch.iter().filter(|o| matches!(o, Operation::Create { .. } | Operation::Delete { .. })).count() >= 2
}

pub fn run(ctx: &Ctx) -> Outcome {
    let mut acc = Acc::default();
    let seed = ctx.seed;
    let only = ctx.replay.as_ref().and_then(|r| r.get("stratum").and_then(|s| s.as_str()).map(|s| s.to_string()));
    let only_idx = ctx.replay.as_ref().and_then(|r| r.get("index").and_then(|s| s.as_u64()));
    let want = |s: &str| only.as_deref().map(|o| o == s).unwrap_or(true);
    let range = |n: u64| -> (u64, u64) { match only_idx { Some(i) => (i, i + 1), None => (0, n) } };

    let alpha = alphabet();
    let a = alpha.len() as u64;
    let n_batches = 1 + a + a * a + a * a * a; // lengths 0..=3
    let decode = |mut k: u64| -> Operations {
        // k in 0..n_batches -> batch of length 0..=3
        let mut len = 0u32;
        let mut span = 1u64;
        while k >= span {
            k -= span;
            len += 1;
            span *= a;
        }
        let mut b = Operations::new();
        for _ in 0..len {
            b.push(alpha[(k % a) as usize].clone());
            k /= a;
        }
        b
    };
    for (name, kind, full) in [("exhaustive-mem", StoreKind::Mem, true), ("exhaustive-sqlite", StoreKind::Sqlite, ctx.tier == Tier::Thorough)] {
        if !want(name) {
            continue;
        }
        let total = n_batches * 4;
        let (lo, hi) = range(total);
        // sampled on SQLite in the quick tier
        let stride: u64 = if full { 1 } else { 23 };
        let n = (hi - lo).div_ceil(stride);
        run_cases(&mut acc, name, n, |j| {
            let i = lo + j * stride;
            let mut out = CaseOut::new();
            let chain = ChainRef::new();
            let mut r = match build_prior(i % 4, kind, &chain) {
                Ok(r) => r,
                Err(e) => {
                    out.inconclusive = Some(e);
                    return out;
                }
            };
            let batch = decode(i / 4);
            let before = r.ctl.last().tasks;
            // fault sweep on every 5th case (every case in thorough)
            let faults = ctx.tier == Tier::Thorough || i % 5 == 0;
            check_commit(name, i, &mut r, &chain, &batch, faults, &mut out);
            if nontrivial(&batch, &before) {
                out.nontrivial = Some(fnv(format!("{}|{:?}", i % 4, show_ops(&batch)).as_bytes()));
            }
            if i % 997 == 3 {
                out.sample = Some(json!({"prior_state": i % 4, "batch": show_ops(&batch), "storage": format!("{kind:?}")}));
            }
            out
        });
        if only.is_none() && full && !acc.truncated {
            acc.exhaustive_parts.push(format!("{name}: all {n_batches} batches of length <=3 over {a} operations (2 tasks x 2 properties x set/remove, create, delete, undo point) x 4 prior states"));
        }
    }
    if want("random") {
        let (lo, hi) = range(ctx.tier.pick(6000, 60_000));
        run_cases(&mut acc, "random", hi - lo, |i| {
            let i = i + lo;
            let mut rng = Rng::derive(seed, "c05-random", i);
            let mut out = CaseOut::new();
            let chain = ChainRef::new();
            let kind = if rng.chance(1, 8) { StoreKind::Sqlite } else { StoreKind::Mem };
            let mut r = match build_prior(rng.below(4) as u64, kind, &chain) {
                Ok(r) => r,
                Err(e) => {
                    out.inconclusive = Some(e);
                    return out;
                }
            };
            let mut any = false;
            for round in 0..(1 + rng.below(4)) {
                let len = rng.below(31);
                let mut batch = Operations::new();
                for _ in 0..len {
                    let mut op = alpha[rng.below(alpha.len())].clone();
                    if let Operation::Update { value: Some(v), timestamp, old_value, .. } = &mut op {
                        *v = format!("r{}-{}", round, rng.below(1000));
                        *timestamp = ts(rng.range(-5, 50));
                        // the recorded old value is whatever the caller believed: right, absent, or
                        // equal to the new value
                        match rng.below(4) {
                            0 => *old_value = Some(v.clone()),
                            1 => *old_value = Some("believed".into()),
                            _ => {}
                        }
                    } else if let Operation::Update { value: None, old_value, .. } = &mut op {
                        if rng.chance(1, 3) {
                            *old_value = None;
                        }
                    }
                    if rng.chance(1, 6) {
                        // status changes: a task that becomes pending / recurring also enters
                        // the working set as part of the same commit
                        let t = 1 + rng.below(2) as u128;
                        op = Operation::Update { uuid: u(t), property: "status".into(), old_value: None, value: Some((*rng.pick(&["pending", "completed", "recurring", "deleted", "pending"])).to_string()), timestamp: ts(rng.range(-5, 50)) };
                    }
                    batch.push(op);
                }
                let before = r.ctl.last().tasks;
                let faults = rng.chance(1, 6);
                check_commit("random", i, &mut r, &chain, &batch, faults, &mut out);
                if !out.violations.is_empty() {
                    break;
                }
                any |= nontrivial(&batch, &before);
                if rng.chance(1, 4) {
                    if let Err(e) = sync(&mut r, &chain, false) {
                        out.violate("sync-error", format!("{e:#}"), json!({"stratum": "random", "index": i}));
                        break;
                    }
                }
            }
            if any {
                out.nontrivial = Some(fnv(&i.to_le_bytes()));
            }
            out
        });
    }
    if only.is_none() {
        acc.require("fault_points", 50, "too few injected storage faults during commits");
        acc.require("commits_checked", 100, "too few commits compared with the model");
    }
    Outcome {
        level: "exploration",
        rule: "every batch of <=3 operations over {create, delete, set/remove of 2 properties (recorded old values right, stale, or equal to the new value), undo point} x 2 tasks on 4 prior states (empty, one task, two tasks with undo point, synced base + pending) on in-memory storage (SQLite: sampled in quick, full in thorough) + seeded random batches up to 30 operations (incl. status changes that move tasks into the working set) with interleaved syncs; error injected at every storage call of a commit (every 5th case in quick); non-trivial = batch contains an operation invalid in its state or >=2 create/delete operations; distinct by (prior state, batch)".into(),
        exhaustive: None,
        acc,
        assumptions: vec![
            "fault model for atomicity: a storage call returns an error (transaction then dropped); process death is C06".into(),
            "stored state observed at commit time through the public Storage trait".into(),
        ],
        extra: Default::default(),
    }
}

//! Harness-side servers implementing the public `Server` trait over a shared reference chain that
//! is correct by construction. One `Chain` per case (single-threaded, `Rc<RefCell<..>>`); every
//! replica gets its own `ChainClient`. The client handles record every request, can await a gate
//! before each request (engine E2), inject faults per request (engine E3), choose the snapshot
//! urgency returned by `add_version`, and discard pre-snapshot history.

use async_trait::async_trait;
use std::cell::RefCell;
use std::collections::{BTreeMap, VecDeque};
use std::rc::Rc;
use taskchampion::server::{
    AddVersionResult, GetVersionResult, HistorySegment, Server, Snapshot, SnapshotUrgency, VersionId,
};
use taskchampion::Error;
use uuid::Uuid;

use crate::exec::Gates;
use crate::model::{self, MOp, Tasks};

type Result<T> = std::result::Result<T, Error>;

#[derive(Clone, Debug)]
pub struct VersionRec {
    pub id: Uuid,
    pub parent: Uuid,
    pub bytes: Vec<u8>,
    pub client: usize,
    /// which `sync` call of that client produced it (client-side counter, set by the harness)
    pub sync_call: u64,
}

#[derive(Clone, Debug)]
pub enum Ev {
    GetChild { client: usize, sync_call: u64, parent: Uuid, found: Option<Uuid> },
    Add { client: usize, sync_call: u64, parent: Uuid, bytes: Vec<u8>, accepted: Option<Uuid>, expected: Option<Uuid>, urgency: SnapshotUrgency },
    AddSnapshot { client: usize, sync_call: u64, version: Uuid, bytes: Vec<u8> },
    GetSnapshot { client: usize, sync_call: u64, returned: Option<Uuid> },
    Fault { client: usize, sync_call: u64, req: u64, after_effect: bool, what: &'static str },
}

#[derive(Clone, Copy, Debug, PartialEq, Eq)]
pub enum SrvFault {
    /// fail before the request has any effect
    Before,
    /// perform the request, then lose the reply
    After,
}

pub struct Chain {
    pub versions: Vec<VersionRec>,
    /// versions[..first_available] have been discarded (their parents answer NoSuchVersion)
    pub first_available: usize,
    pub snapshots: Vec<(Uuid, Vec<u8>, usize)>,
    /// what `get_snapshot` serves (None = the most recently added snapshot, if any)
    pub serve_snapshot: Option<Option<(Uuid, Vec<u8>)>>,
    pub next_id: u64,
    pub events: Vec<Ev>,
    pub urgency_script: VecDeque<SnapshotUrgency>,
    pub urgency_default: SnapshotUrgency,
    /// (client, request index since `reset_requests`) -> fault
    pub faults: BTreeMap<(usize, u64), SrvFault>,
    pub requests: BTreeMap<usize, u64>,
    pub sync_calls: BTreeMap<usize, u64>,
    pub record_bytes: bool,
    /// (client, n, bytes): right before that client's n-th add_version (1-based, since the last
    /// `reset_requests`) another writer's version with these bytes lands on the chain, so that the
    /// add is rejected — a race at a chosen point without needing the scheduler
    pub inject_on_add: Vec<(usize, u64, Vec<u8>)>,
    pub add_counts: BTreeMap<usize, u64>,
}

impl Default for Chain {
    fn default() -> Self {
        Chain {
            versions: vec![],
            first_available: 0,
            snapshots: vec![],
            serve_snapshot: None,
            next_id: 1,
            events: vec![],
            urgency_script: VecDeque::new(),
            urgency_default: SnapshotUrgency::None,
            faults: BTreeMap::new(),
            requests: BTreeMap::new(),
            sync_calls: BTreeMap::new(),
            record_bytes: true,
            inject_on_add: vec![],
            add_counts: BTreeMap::new(),
        }
    }
}

pub fn version_uuid(n: u64) -> Uuid {
    Uuid::from_u128(0x7e57_0000_0000_4000_8000_0000_0000_0000u128 + n as u128)
}

impl Chain {
    pub fn latest(&self) -> Uuid {
        self.versions.last().map(|v| v.id).unwrap_or(Uuid::nil())
    }
    /// Replay the stored versions, in order, onto an empty task set (documented semantics).
    pub fn replay(&self) -> std::result::Result<Tasks, String> {
        self.replay_upto(self.versions.len())
    }
    pub fn replay_upto(&self, n: usize) -> std::result::Result<Tasks, String> {
        let mut t = Tasks::new();
        for v in &self.versions[..n] {
            let ops = model::parse_version(&v.bytes)?;
            model::apply_all(&mut t, &ops);
        }
        Ok(t)
    }
    pub fn replay_to_version(&self, id: Uuid) -> std::result::Result<Tasks, String> {
        if id.is_nil() {
            return Ok(Tasks::new());
        }
        let idx = self.versions.iter().position(|v| v.id == id).ok_or_else(|| format!("version {id} not on chain"))?;
        self.replay_upto(idx + 1)
    }
    pub fn index_of(&self, id: Uuid) -> Option<usize> {
        self.versions.iter().position(|v| v.id == id)
    }
    pub fn ops_of(&self, idx: usize) -> Vec<MOp> {
        model::parse_version(&self.versions[idx].bytes).unwrap_or_default()
    }
    pub fn reset_requests(&mut self) {
        self.requests.clear();
        self.add_counts.clear();
    }
}

#[derive(Clone)]
pub struct ChainRef(pub Rc<RefCell<Chain>>);

impl ChainRef {
    pub fn new() -> ChainRef {
        ChainRef(Rc::new(RefCell::new(Chain::default())))
    }
    pub fn client(&self, id: usize) -> Box<dyn Server> {
        Box::new(ChainClient { chain: self.clone(), id, gates: None })
    }
    pub fn gated_client(&self, id: usize, gates: Gates) -> Box<dyn Server> {
        Box::new(ChainClient { chain: self.clone(), id, gates: Some(gates) })
    }
    /// The harness calls this right before each `Replica::sync` so events carry the call number.
    pub fn begin_sync(&self, client: usize) -> u64 {
        let mut c = self.0.borrow_mut();
        let e = c.sync_calls.entry(client).or_insert(0);
        *e += 1;
        *e
    }
}

impl Default for ChainRef {
    fn default() -> Self {
        Self::new()
    }
}

pub struct ChainClient {
    chain: ChainRef,
    id: usize,
    gates: Option<Gates>,
}

fn lost(what: &str) -> Error {
    Error::Server(format!("verif: injected server fault ({what})"))
}

impl ChainClient {
    async fn enter(&mut self, what: &'static str, detail: String) -> (u64, Option<SrvFault>) {
        if let Some(g) = &self.gates {
            g.pass(self.id, format!("{what}{detail}")).await;
        }
        let mut c = self.chain.0.borrow_mut();
        let r = c.requests.entry(self.id).or_insert(0);
        *r += 1;
        let req = *r;
        let f = c.faults.get(&(self.id, req)).copied();
        if let Some(k) = f {
            let sc = c.sync_calls.get(&self.id).copied().unwrap_or(0);
            c.events.push(Ev::Fault { client: self.id, sync_call: sc, req, after_effect: k == SrvFault::After, what });
        }
        (req, f)
    }
    fn sc(&self) -> u64 {
        self.chain.0.borrow().sync_calls.get(&self.id).copied().unwrap_or(0)
    }
}

#[async_trait(?Send)]
impl Server for ChainClient {
    async fn add_version(
        &mut self,
        parent_version_id: VersionId,
        history_segment: HistorySegment,
    ) -> Result<(AddVersionResult, SnapshotUrgency)> {
        let (_req, fault) = self.enter("add", String::new()).await;
        if fault == Some(SrvFault::Before) {
            return Err(lost("add_version before effect"));
        }
        let sc = self.sc();
        let mut c = self.chain.0.borrow_mut();
        let n_add = {
            let e = c.add_counts.entry(self.id).or_insert(0);
            *e += 1;
            *e
        };
        if let Some(pos) = c.inject_on_add.iter().position(|(cl, n, _)| *cl == self.id && *n == n_add) {
            let (_, _, bytes) = c.inject_on_add.remove(pos);
            let id = version_uuid(c.next_id);
            c.next_id += 1;
            let parent = c.latest();
            c.versions.push(VersionRec { id, parent, bytes, client: 99, sync_call: 0 });
        }
        let latest = c.latest();
        let res = if !c.versions.is_empty() && parent_version_id != latest {
            let bytes = if c.record_bytes { history_segment.clone() } else { vec![] };
            c.events.push(Ev::Add { client: self.id, sync_call: sc, parent: parent_version_id, bytes, accepted: None, expected: Some(latest), urgency: SnapshotUrgency::None });
            (AddVersionResult::ExpectedParentVersion(latest), SnapshotUrgency::None)
        } else {
            let id = version_uuid(c.next_id);
            c.next_id += 1;
            let urgency = c.urgency_script.pop_front().unwrap_or(c.urgency_default);
            c.versions.push(VersionRec { id, parent: parent_version_id, bytes: history_segment.clone(), client: self.id, sync_call: sc });
            let bytes = if c.record_bytes { history_segment } else { vec![] };
            c.events.push(Ev::Add { client: self.id, sync_call: sc, parent: parent_version_id, bytes, accepted: Some(id), expected: None, urgency });
            (AddVersionResult::Ok(id), urgency)
        };
        drop(c);
        if fault == Some(SrvFault::After) {
            return Err(lost("add_version reply lost"));
        }
        Ok(res)
    }

    async fn get_child_version(&mut self, parent_version_id: VersionId) -> Result<GetVersionResult> {
        let (_req, fault) = self.enter("get", String::new()).await;
        if fault == Some(SrvFault::Before) {
            return Err(lost("get_child_version before effect"));
        }
        let sc = self.sc();
        let mut c = self.chain.0.borrow_mut();
        let fa = c.first_available;
        let found = c.versions.iter().enumerate().find(|(i, v)| *i >= fa && v.parent == parent_version_id).map(|(_, v)| v.clone());
        c.events.push(Ev::GetChild { client: self.id, sync_call: sc, parent: parent_version_id, found: found.as_ref().map(|v| v.id) });
        drop(c);
        if fault == Some(SrvFault::After) {
            return Err(lost("get_child_version reply lost"));
        }
        Ok(match found {
            Some(v) => GetVersionResult::Version { version_id: v.id, parent_version_id: v.parent, history_segment: v.bytes },
            None => GetVersionResult::NoSuchVersion,
        })
    }

    async fn add_snapshot(&mut self, version_id: VersionId, snapshot: Snapshot) -> Result<()> {
        let (_req, fault) = self.enter("snap", String::new()).await;
        if fault == Some(SrvFault::Before) {
            return Err(lost("add_snapshot before effect"));
        }
        let sc = self.sc();
        let mut c = self.chain.0.borrow_mut();
        let at = c.versions.len();
        c.snapshots.push((version_id, snapshot.clone(), at));
        c.events.push(Ev::AddSnapshot { client: self.id, sync_call: sc, version: version_id, bytes: snapshot });
        drop(c);
        if fault == Some(SrvFault::After) {
            return Err(lost("add_snapshot reply lost"));
        }
        Ok(())
    }

    async fn get_snapshot(&mut self) -> Result<Option<(VersionId, Snapshot)>> {
        let (_req, fault) = self.enter("getsnap", String::new()).await;
        if fault == Some(SrvFault::Before) {
            return Err(lost("get_snapshot before effect"));
        }
        let sc = self.sc();
        let mut c = self.chain.0.borrow_mut();
        let served = match &c.serve_snapshot {
            Some(x) => x.clone(),
            None => c.snapshots.last().map(|(v, b, _)| (*v, b.clone())),
        };
        c.events.push(Ev::GetSnapshot { client: self.id, sync_call: sc, returned: served.as_ref().map(|s| s.0) });
        drop(c);
        if fault == Some(SrvFault::After) {
            return Err(lost("get_snapshot reply lost"));
        }
        Ok(served)
    }
}

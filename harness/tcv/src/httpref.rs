//! A reference sync server written from docs/src/http.md over `std::net` (one thread per
//! connection, `Connection: close`, `Content-Length` bodies). It keeps, per `X-Client-Id`, a chain
//! that is correct by construction, records every request (method, path, headers, body bytes) for
//! the sealed-format checks, and lets a test install a response mutator.

use std::collections::BTreeMap;
use std::io::{BufRead, BufReader, Read, Write};
use std::net::{TcpListener, TcpStream};
use std::sync::atomic::{AtomicBool, Ordering};
use std::sync::{Arc, Mutex};
use uuid::Uuid;

#[derive(Clone, Debug)]
pub struct Recorded {
    pub method: String,
    pub path: String,
    pub headers: BTreeMap<String, String>,
    pub body: Vec<u8>,
}

#[derive(Clone, Debug, Default)]
pub struct ClientChain {
    /// (version id, parent id, stored body)
    pub versions: Vec<(Uuid, Uuid, Vec<u8>)>,
    pub snapshot: Option<(Uuid, Vec<u8>)>,
}

#[derive(Clone, Debug)]
pub struct Response {
    pub status: u16,
    pub headers: Vec<(String, String)>,
    pub body: Vec<u8>,
}

pub type Mutator = Box<dyn FnMut(&Recorded, &mut Response) + Send>;

#[derive(Default)]
pub struct HttpState {
    pub clients: BTreeMap<String, ClientChain>,
    pub requests: Vec<Recorded>,
    pub next_id: u64,
    pub urgency: Option<&'static str>,
    pub mutator: Option<Mutator>,
}

pub struct HttpRefServer {
    pub port: u16,
    pub state: Arc<Mutex<HttpState>>,
    stop: Arc<AtomicBool>,
}

fn reason(status: u16) -> &'static str {
    match status {
        200 => "OK",
        400 => "Bad Request",
        404 => "Not Found",
        409 => "Conflict",
        410 => "Gone",
        _ => "Error",
    }
}

fn handle(state: &Arc<Mutex<HttpState>>, mut stream: TcpStream) {
    let _ = stream.set_read_timeout(Some(std::time::Duration::from_secs(10)));
    let mut reader = BufReader::new(match stream.try_clone() {
        Ok(s) => s,
        Err(_) => return,
    });
    let mut line = String::new();
    if reader.read_line(&mut line).is_err() || line.is_empty() {
        return;
    }
    let mut parts = line.split_whitespace();
    let method = parts.next().unwrap_or("").to_string();
    let path = parts.next().unwrap_or("").to_string();
    let mut headers = BTreeMap::new();
    loop {
        let mut h = String::new();
        if reader.read_line(&mut h).is_err() {
            return;
        }
        let h = h.trim_end();
        if h.is_empty() {
            break;
        }
        if let Some((k, v)) = h.split_once(':') {
            headers.insert(k.trim().to_ascii_lowercase(), v.trim().to_string());
        }
    }
    let len: usize = headers.get("content-length").and_then(|v| v.parse().ok()).unwrap_or(0);
    let mut body = vec![0u8; len];
    if len > 0 && reader.read_exact(&mut body).is_err() {
        return;
    }
    let rec = Recorded { method: method.clone(), path: path.clone(), headers: headers.clone(), body: body.clone() };
    let mut resp = Response { status: 404, headers: vec![], body: vec![] };
    {
        let mut st = state.lock().unwrap();
        st.requests.push(rec.clone());
        let client = headers.get("x-client-id").cloned().unwrap_or_default();
        let segs: Vec<&str> = path.trim_start_matches('/').split('/').collect();
        // allow a base path prefix: find "v1"
        let at = segs.iter().position(|s| *s == "v1").unwrap_or(0);
        let segs = &segs[at..];
        let urgency = st.urgency;
        let next = {
            st.next_id += 1;
            st.next_id
        };
        let chain = st.clients.entry(client).or_default();
        match (method.as_str(), segs) {
            ("POST", ["v1", "client", "add-version", parent]) => {
                if headers.get("content-type").map(|s| s.as_str()) != Some("application/vnd.taskchampion.history-segment") {
                    resp.status = 400;
                } else if let Ok(parent) = Uuid::parse_str(parent) {
                    let latest = chain.versions.last().map(|v| v.0);
                    if latest.is_some() && latest != Some(parent) {
                        resp.status = 409;
                        resp.headers.push(("X-Parent-Version-Id".into(), latest.unwrap().to_string()));
                    } else {
                        let id = Uuid::from_u128(0x4774_0000_0000_4000_8000_0000_0000_0000u128 + next as u128);
                        chain.versions.push((id, parent, body.clone()));
                        resp.status = 200;
                        resp.headers.push(("X-Version-Id".into(), id.to_string()));
                        if let Some(u) = urgency {
                            resp.headers.push(("X-Snapshot-Request".into(), format!("urgency={u}")));
                        }
                    }
                } else {
                    resp.status = 400;
                }
            }
            ("GET", ["v1", "client", "get-child-version", parent]) => {
                if let Ok(parent) = Uuid::parse_str(parent) {
                    if let Some((id, p, b)) = chain.versions.iter().find(|v| v.1 == parent) {
                        resp.status = 200;
                        resp.headers.push(("X-Version-Id".into(), id.to_string()));
                        resp.headers.push(("X-Parent-Version-Id".into(), p.to_string()));
                        resp.headers.push(("Content-Type".into(), "application/vnd.taskchampion.history-segment".into()));
                        resp.body = b.clone();
                    } else {
                        resp.status = 404;
                    }
                } else {
                    resp.status = 400;
                }
            }
            ("POST", ["v1", "client", "add-snapshot", version]) => {
                if headers.get("content-type").map(|s| s.as_str()) != Some("application/vnd.taskchampion.snapshot") {
                    resp.status = 400;
                } else if let Ok(v) = Uuid::parse_str(version) {
                    if chain.versions.iter().any(|x| x.0 == v) {
                        chain.snapshot = Some((v, body.clone()));
                        resp.status = 200;
                    } else {
                        resp.status = 400;
                    }
                } else {
                    resp.status = 400;
                }
            }
            ("GET", ["v1", "client", "snapshot"]) => match &chain.snapshot {
                Some((v, b)) => {
                    resp.status = 200;
                    resp.headers.push(("X-Version-Id".into(), v.to_string()));
                    resp.headers.push(("Content-Type".into(), "application/vnd.taskchampion.snapshot".into()));
                    resp.body = b.clone();
                }
                None => resp.status = 404,
            },
            _ => resp.status = 404,
        }
        if let Some(m) = st.mutator.as_mut() {
            m(&rec, &mut resp);
        }
    }
    if resp.status == 0 {
        // a mutator asked for a transport fault: the request has taken effect, the reply is lost
        let _ = stream.shutdown(std::net::Shutdown::Both);
        return;
    }
    let mut out = format!("HTTP/1.1 {} {}\r\nConnection: close\r\nContent-Length: {}\r\n", resp.status, reason(resp.status), resp.body.len());
    for (k, v) in &resp.headers {
        out.push_str(&format!("{k}: {v}\r\n"));
    }
    out.push_str("\r\n");
    let _ = stream.write_all(out.as_bytes());
    let _ = stream.write_all(&resp.body);
    let _ = stream.flush();
    let _ = stream.shutdown(std::net::Shutdown::Both);
}

impl HttpRefServer {
    pub fn start() -> Result<HttpRefServer, String> {
        let listener = TcpListener::bind("127.0.0.1:0").map_err(|e| format!("bind: {e}"))?;
        let port = listener.local_addr().map_err(|e| e.to_string())?.port();
        let state = Arc::new(Mutex::new(HttpState::default()));
        let stop = Arc::new(AtomicBool::new(false));
        let (st, sp) = (state.clone(), stop.clone());
        std::thread::spawn(move || {
            for conn in listener.incoming() {
                if sp.load(Ordering::SeqCst) {
                    break;
                }
                if let Ok(s) = conn {
                    let st = st.clone();
                    std::thread::spawn(move || handle(&st, s));
                }
            }
        });
        Ok(HttpRefServer { port, state, stop })
    }
    pub fn url(&self) -> String {
        format!("http://127.0.0.1:{}", self.port)
    }
}

impl Drop for HttpRefServer {
    fn drop(&mut self) {
        self.stop.store(true, Ordering::SeqCst);
        // unblock the accept loop
        let _ = TcpStream::connect(("127.0.0.1", self.port));
    }
}

/// Proxy variables must not interfere with loopback requests.
pub fn clear_proxy_env() {
    for k in ["HTTP_PROXY", "http_proxy", "HTTPS_PROXY", "https_proxy", "ALL_PROXY", "all_proxy"] {
        std::env::remove_var(k);
    }
}

//! Minimal executors. `block_on` drives one future to completion on the calling thread (thread-park
//! waker, so SQLite actor-thread replies wake it). `Sched` is the cooperative request-level
//! scheduler of engine E2: several client futures, each of which parks at a *gate* before every
//! server / object-store request; the scheduler decides which parked client proceeds next.

use std::future::Future;
use std::pin::Pin;
use std::sync::{Arc, Mutex};
use std::task::{Context, Poll, Wake, Waker};
use std::thread::Thread;

struct ParkWaker(Thread);
impl Wake for ParkWaker {
    fn wake(self: Arc<Self>) {
        self.0.unpark();
    }
    fn wake_by_ref(self: &Arc<Self>) {
        self.0.unpark();
    }
}

pub fn block_on<F: Future>(f: F) -> F::Output {
    let mut f = std::pin::pin!(f);
    let waker: Waker = Arc::new(ParkWaker(std::thread::current())).into();
    let mut cx = Context::from_waker(&waker);
    loop {
        match f.as_mut().poll(&mut cx) {
            Poll::Ready(v) => return v,
            Poll::Pending => std::thread::park_timeout(std::time::Duration::from_millis(50)),
        }
    }
}

/// Drive a future until it completes or `stop()` says it is parked for good (used to drop a
/// future "at storage call k" = process stop before the transaction commits).
pub fn block_on_until<F: Future>(f: F, stop: impl Fn() -> bool) -> Option<F::Output> {
    let mut f = std::pin::pin!(f);
    let waker: Waker = Arc::new(ParkWaker(std::thread::current())).into();
    let mut cx = Context::from_waker(&waker);
    loop {
        match f.as_mut().poll(&mut cx) {
            Poll::Ready(v) => return Some(v),
            Poll::Pending => {
                if stop() {
                    return None;
                }
                std::thread::park_timeout(std::time::Duration::from_millis(1));
            }
        }
    }
}

/// A future that never completes (used by fault plans to model "the process stops here").
pub struct Never;
impl Future for Never {
    type Output = ();
    fn poll(self: Pin<&mut Self>, _cx: &mut Context<'_>) -> Poll<()> {
        Poll::Pending
    }
}

// ------------------------------------------------------------------------------------------------
// Gates and the cooperative scheduler
// ------------------------------------------------------------------------------------------------

#[derive(Clone, Debug, PartialEq, Eq)]
pub struct Parked {
    pub label: String,
}

#[derive(Default)]
pub struct GateState {
    /// client that may pass its gate now
    pub permit: Option<usize>,
    /// decision delivered together with the permit (meaning is up to the gate's owner)
    pub decision: u8,
    /// what each client is parked on
    pub parked: Vec<Option<Parked>>,
}

#[derive(Clone)]
pub struct Gates(pub Arc<Mutex<GateState>>);

impl Gates {
    pub fn new(n: usize) -> Gates {
        Gates(Arc::new(Mutex::new(GateState { permit: None, decision: 0, parked: vec![None; n] })))
    }
    /// Future resolving (to the scheduler's decision byte) once `client` is granted a permit.
    pub fn pass(&self, client: usize, label: String) -> GateFuture {
        GateFuture { gates: self.clone(), client, label }
    }
}

pub struct GateFuture {
    gates: Gates,
    client: usize,
    label: String,
}

impl Future for GateFuture {
    type Output = u8;
    fn poll(self: Pin<&mut Self>, _cx: &mut Context<'_>) -> Poll<u8> {
        let mut g = self.gates.0.lock().unwrap();
        if g.permit == Some(self.client) {
            g.permit = None;
            g.parked[self.client] = None;
            Poll::Ready(g.decision)
        } else {
            g.parked[self.client] = Some(Parked { label: self.label.clone() });
            Poll::Pending
        }
    }
}

/// What the decision source chooses at one step.
#[derive(Clone, Debug, PartialEq, Eq)]
pub struct Choice {
    /// index into the list of enabled (parked) clients
    pub which: usize,
    /// decision byte handed to the gate (0 = proceed; other values are fault kinds)
    pub decision: u8,
    /// drop the client future instead of letting it proceed ("process stop at this request")
    pub drop_client: bool,
}

pub trait DecisionSource {
    /// `enabled`: (client id, label of the request it is parked on). Must return a valid choice.
    fn choose(&mut self, step: usize, enabled: &[(usize, String)]) -> Choice;
}

pub struct SchedOutcome<R> {
    pub results: Vec<Option<R>>,
    /// (client, label, decision, dropped) per step
    pub trace: Vec<(usize, String, u8, bool)>,
    pub steps: usize,
    pub watchdog: bool,
}

/// Run the client futures under the cooperative scheduler until all are finished or dropped.
pub fn run_sched<'a, R>(
    gates: &Gates,
    mut clients: Vec<Option<Pin<Box<dyn Future<Output = R> + 'a>>>>,
    source: &mut dyn DecisionSource,
    max_steps: usize,
) -> SchedOutcome<R> {
    let n = clients.len();
    let waker: Waker = Arc::new(ParkWaker(std::thread::current())).into();
    let mut cx = Context::from_waker(&waker);
    let mut results: Vec<Option<R>> = (0..n).map(|_| None).collect();
    let mut trace = Vec::new();
    let mut steps = 0usize;
    let mut watchdog = false;
    loop {
        // (1) advance every live client that is not parked at a gate until it is parked or done
        for c in 0..n {
            let mut spins = 0u32;
            loop {
                if clients[c].is_none() || gates.0.lock().unwrap().parked[c].is_some() {
                    break;
                }
                let fut = clients[c].as_mut().unwrap();
                match fut.as_mut().poll(&mut cx) {
                    Poll::Ready(r) => {
                        results[c] = Some(r);
                        clients[c] = None;
                    }
                    Poll::Pending => {
                        if gates.0.lock().unwrap().parked[c].is_some() {
                            break;
                        }
                        // pending on something else (actor thread round trip): wait briefly
                        spins += 1;
                        if spins > 200_000 {
                            watchdog = true;
                            break;
                        }
                        std::thread::park_timeout(std::time::Duration::from_micros(200));
                    }
                }
            }
        }
        if watchdog {
            break;
        }
        // (2) who is enabled?
        let enabled: Vec<(usize, String)> = {
            let g = gates.0.lock().unwrap();
            (0..n)
                .filter(|c| clients[*c].is_some())
                .filter_map(|c| g.parked[c].as_ref().map(|p| (c, p.label.clone())))
                .collect()
        };
        if enabled.is_empty() {
            break;
        }
        if steps >= max_steps {
            watchdog = true;
            break;
        }
        // (3) decide
        let ch = source.choose(steps, &enabled);
        let (c, label) = enabled[ch.which % enabled.len()].clone();
        trace.push((c, label, ch.decision, ch.drop_client));
        steps += 1;
        if ch.drop_client {
            clients[c] = None;
            gates.0.lock().unwrap().parked[c] = None;
            continue;
        }
        {
            let mut g = gates.0.lock().unwrap();
            g.permit = Some(c);
            g.decision = ch.decision;
            g.parked[c] = None;
        }
        // poll the chosen client once so that it consumes its permit before anything else runs
        if let Some(fut) = clients[c].as_mut() {
            if let Poll::Ready(r) = fut.as_mut().poll(&mut cx) {
                results[c] = Some(r);
                clients[c] = None;
            }
        }
        // a permit must never linger
        gates.0.lock().unwrap().permit = None;
    }
    SchedOutcome { results, trace, steps, watchdog }
}

// ---- decision sources --------------------------------------------------------------------------

/// Seeded random choices; `bias_delay` makes one client lag (classic "delay one client" bias).
pub struct RandomSource {
    pub rng: crate::rng::Rng,
    pub delay_client: Option<usize>,
}

impl DecisionSource for RandomSource {
    fn choose(&mut self, _step: usize, enabled: &[(usize, String)]) -> Choice {
        let mut idxs: Vec<usize> = (0..enabled.len()).collect();
        if let Some(d) = self.delay_client {
            if enabled.len() > 1 && self.rng.chance(3, 4) {
                idxs.retain(|i| enabled[*i].0 != d);
            }
        }
        let which = idxs[self.rng.below(idxs.len())];
        Choice { which, decision: 0, drop_client: false }
    }
}

/// Replay a recorded list of client ids (falls back to the first enabled client).
pub struct ReplaySource {
    pub clients: Vec<usize>,
}

impl DecisionSource for ReplaySource {
    fn choose(&mut self, step: usize, enabled: &[(usize, String)]) -> Choice {
        let want = self.clients.get(step).copied();
        let which = want.and_then(|w| enabled.iter().position(|e| e.0 == w)).unwrap_or(0);
        Choice { which, decision: 0, drop_client: false }
    }
}

/// Stateless depth-first enumeration of all schedules: re-execute from the start following a
/// stack of (choice, number of alternatives); after each run advance the deepest choice that has an
/// untried alternative.
pub struct DfsSource {
    /// (chosen index, number enabled) per step of the current run
    pub stack: Vec<(usize, usize)>,
    pos: usize,
}

impl DfsSource {
    pub fn new() -> DfsSource {
        DfsSource { stack: Vec::new(), pos: 0 }
    }
    pub fn begin_run(&mut self) {
        self.pos = 0;
    }
    /// Advance to the next schedule; false when the space is exhausted.
    pub fn advance(&mut self) -> bool {
        // drop anything beyond what the last run actually used
        self.stack.truncate(self.pos);
        while let Some((c, n)) = self.stack.pop() {
            if c + 1 < n {
                self.stack.push((c + 1, n));
                return true;
            }
        }
        false
    }
}

impl Default for DfsSource {
    fn default() -> Self {
        Self::new()
    }
}

impl DecisionSource for DfsSource {
    fn choose(&mut self, _step: usize, enabled: &[(usize, String)]) -> Choice {
        let which = if self.pos < self.stack.len() {
            // the number of alternatives is a function of the prefix, so it must match
            self.stack[self.pos].1 = enabled.len();
            self.stack[self.pos].0.min(enabled.len() - 1)
        } else {
            self.stack.push((0, enabled.len()));
            0
        };
        self.pos += 1;
        Choice { which, decision: 0, drop_client: false }
    }
}

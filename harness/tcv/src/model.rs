//! Reference models written from the documentation (docs/src/storage.md, sync-model.md,
//! sync-protocol.md), independent of the crate's own apply / transform code.

use chrono::{DateTime, Utc};
use serde_json::Value;
use std::collections::BTreeMap;
use taskchampion::{Operation, Replica};
use taskchampion::storage::Storage;
use uuid::Uuid;

pub type TaskM = BTreeMap<String, String>;
pub type Tasks = BTreeMap<Uuid, TaskM>;

/// A synchronisable operation as the documentation describes it.
#[derive(Clone, Debug, PartialEq, Eq)]
pub enum MOp {
    Create(Uuid),
    Delete(Uuid),
    Update {
        uuid: Uuid,
        prop: String,
        value: Option<String>,
        ts: DateTime<Utc>,
    },
}

impl MOp {
    pub fn uuid(&self) -> Uuid {
        match self {
            MOp::Create(u) | MOp::Delete(u) => *u,
            MOp::Update { uuid, .. } => *uuid,
        }
    }
    pub fn short(&self) -> String {
        match self {
            MOp::Create(u) => format!("C({})", su(*u)),
            MOp::Delete(u) => format!("D({})", su(*u)),
            MOp::Update { uuid, prop, value, ts } => format!(
                "U({},{},{},{})",
                su(*uuid),
                trunc(prop),
                match value {
                    Some(v) => trunc(v),
                    None => "∅".into(),
                },
                ts.timestamp_nanos_opt().map(|n| n.to_string()).unwrap_or_else(|| ts.to_rfc3339())
            ),
        }
    }
}

pub fn su(u: Uuid) -> String {
    let s = u.as_simple().to_string();
    if s.starts_with("000000") { s[26..].to_string() } else { s[..6].to_string() }
}

pub fn trunc(s: &str) -> String {
    if s.chars().count() > 24 {
        let head: String = s.chars().take(16).collect();
        format!("{}…[{}B]", head, s.len())
    } else {
        s.to_string()
    }
}

/// Documented semantics: create makes an empty task unless it exists; update sets/removes one
/// property of an existing task; delete removes an existing task; anything else changes nothing.
pub fn apply(tasks: &mut Tasks, op: &MOp) {
    match op {
        MOp::Create(u) => {
            tasks.entry(*u).or_default();
        }
        MOp::Delete(u) => {
            tasks.remove(u);
        }
        MOp::Update { uuid, prop, value, .. } => {
            if let Some(t) = tasks.get_mut(uuid) {
                match value {
                    Some(v) => {
                        t.insert(prop.clone(), v.clone());
                    }
                    None => {
                        t.remove(prop);
                    }
                }
            }
        }
    }
}

pub fn apply_all(tasks: &mut Tasks, ops: &[MOp]) {
    for o in ops {
        apply(tasks, o);
    }
}

/// Project a replica-side operation onto what is synchronised (undo points are local only).
pub fn from_operation(op: &Operation) -> Option<MOp> {
    match op {
        Operation::Create { uuid } => Some(MOp::Create(*uuid)),
        Operation::Delete { uuid, .. } => Some(MOp::Delete(*uuid)),
        Operation::Update { uuid, property, value, timestamp, .. } => Some(MOp::Update {
            uuid: *uuid,
            prop: property.clone(),
            value: value.clone(),
            ts: *timestamp,
        }),
        Operation::UndoPoint => None,
    }
}

/// Lenient decoder for a version (history segment) as it crosses the `Server` trait: a JSON object
/// with one key `operations` holding the list. The strict format validator lives in the C14 check;
/// this one only extracts meaning and reports what it cannot read.
pub fn parse_version(bytes: &[u8]) -> Result<Vec<MOp>, String> {
    let s = std::str::from_utf8(bytes).map_err(|e| format!("not utf-8: {e}"))?;
    let v: Value = serde_json::from_str(s).map_err(|e| format!("not json: {e}"))?;
    let arr = match &v {
        Value::Object(m) => m
            .get("operations")
            .and_then(|x| x.as_array())
            .ok_or_else(|| "no operations array".to_string())?,
        Value::Array(a) => a,
        _ => return Err("neither object nor array".into()),
    };
    let mut out = Vec::with_capacity(arr.len());
    for el in arr {
        let o = el.as_object().ok_or("operation is not an object")?;
        if o.len() != 1 {
            return Err(format!("operation with {} keys", o.len()));
        }
        let (k, body) = o.iter().next().unwrap();
        let uuid = body
            .get("uuid")
            .and_then(|x| x.as_str())
            .and_then(|x| Uuid::parse_str(x).ok())
            .ok_or("bad uuid")?;
        match k.as_str() {
            "Create" => out.push(MOp::Create(uuid)),
            "Delete" => out.push(MOp::Delete(uuid)),
            "Update" => {
                let prop = body.get("property").and_then(|x| x.as_str()).ok_or("bad property")?;
                let value = match body.get("value") {
                    Some(Value::Null) | None => None,
                    Some(Value::String(s)) => Some(s.clone()),
                    _ => return Err("bad value".into()),
                };
                let ts = body.get("timestamp").and_then(|x| x.as_str()).ok_or("bad timestamp")?;
                let ts = DateTime::parse_from_rfc3339(ts)
                    .map_err(|e| format!("bad timestamp {ts}: {e}"))?
                    .with_timezone(&Utc);
                out.push(MOp::Update { uuid, prop: prop.to_string(), value, ts });
            }
            other => return Err(format!("unknown operation {other}")),
        }
    }
    Ok(out)
}

/// Encode a list of operations in the documented wire format (used for hand-written versions).
pub fn encode_version(ops: &[MOp]) -> Vec<u8> {
    let mut arr = Vec::new();
    for o in ops {
        arr.push(match o {
            MOp::Create(u) => serde_json::json!({"Create": {"uuid": u.to_string()}}),
            MOp::Delete(u) => serde_json::json!({"Delete": {"uuid": u.to_string()}}),
            MOp::Update { uuid, prop, value, ts } => serde_json::json!({"Update": {
                "uuid": uuid.to_string(), "property": prop, "value": value,
                "timestamp": ts.to_rfc3339_opts(chrono::SecondsFormat::AutoSi, true)}}),
        });
    }
    serde_json::to_vec(&serde_json::json!({ "operations": arr })).unwrap()
}

/// Read a replica's complete task set through its public API.
pub async fn replica_tasks<S: Storage>(rep: &mut Replica<S>) -> Result<Tasks, String> {
    let all = rep.all_task_data().await.map_err(|e| format!("all_task_data: {e}"))?;
    let mut out = Tasks::new();
    for (u, td) in all {
        let mut m = TaskM::new();
        for (k, v) in td.iter() {
            m.insert(k.clone(), v.clone());
        }
        out.insert(u, m);
    }
    Ok(out)
}

pub fn taskmap_to_m(t: &taskchampion::storage::TaskMap) -> TaskM {
    t.iter().map(|(k, v)| (k.clone(), v.clone())).collect()
}

pub fn tasks_from_vec(v: Vec<(Uuid, taskchampion::storage::TaskMap)>) -> Tasks {
    v.into_iter().map(|(u, t)| (u, taskmap_to_m(&t))).collect()
}

/// Compact rendering used in violation messages and samples.
pub fn show_tasks(t: &Tasks) -> String {
    let mut parts = Vec::new();
    for (u, m) in t {
        let props: Vec<String> = m.iter().map(|(k, v)| format!("{}={}", trunc(k), trunc(v))).collect();
        parts.push(format!("{}{{{}}}", su(*u), props.join(",")));
    }
    format!("[{}]", parts.join(" "))
}

pub fn diff_tasks(a: &Tasks, b: &Tasks) -> String {
    let mut out = Vec::new();
    for (u, m) in a {
        match b.get(u) {
            None => out.push(format!("{} only-left{{{}}}", su(*u), show_m(m))),
            Some(m2) if m2 != m => {
                for (k, v) in m {
                    match m2.get(k) {
                        None => out.push(format!("{}.{}: {} vs ∅", su(*u), trunc(k), trunc(v))),
                        Some(v2) if v2 != v => {
                            out.push(format!("{}.{}: {} vs {}", su(*u), trunc(k), trunc(v), trunc(v2)))
                        }
                        _ => {}
                    }
                }
                for (k, v2) in m2 {
                    if !m.contains_key(k) {
                        out.push(format!("{}.{}: ∅ vs {}", su(*u), trunc(k), trunc(v2)));
                    }
                }
            }
            _ => {}
        }
    }
    for (u, m) in b {
        if !a.contains_key(u) {
            out.push(format!("{} only-right{{{}}}", su(*u), show_m(m)));
        }
    }
    out.join("; ")
}

fn show_m(m: &TaskM) -> String {
    m.iter().map(|(k, v)| format!("{}={}", trunc(k), trunc(v))).collect::<Vec<_>>().join(",")
}

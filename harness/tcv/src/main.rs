//! `tcv <ID> [--tier quick|thorough] [--replay <file>]` — run the check for one property.

use std::time::Instant;
use tcv::props;
use tcv::report::{finish, set_watchdog, Ctx, Tier};

fn main() {
    let args: Vec<String> = std::env::args().collect();
    if args.len() < 2 {
        eprintln!("usage: tcv <ID> [--tier quick|thorough] [--replay file]");
        std::process::exit(64);
    }
    let id = args[1].clone();
    if id == "worker" {
        std::process::exit(props::worker_main(&args[2..]));
    }
    let mut tier = match std::env::var("VERIF_TIER").as_deref() {
        Ok("thorough") => Tier::Thorough,
        _ => Tier::Quick,
    };
    let mut replay = None;
    let mut i = 2;
    while i < args.len() {
        match args[i].as_str() {
            "--tier" => {
                i += 1;
                tier = if args.get(i).map(|s| s.as_str()) == Some("thorough") { Tier::Thorough } else { Tier::Quick };
            }
            "--replay" => {
                i += 1;
                let s = std::fs::read_to_string(&args[i]).expect("read replay file");
                let v: serde_json::Value = serde_json::from_str(&s).expect("parse replay file");
                replay = Some(v);
            }
            _ => {}
        }
        i += 1;
    }
    let mut seed: u64 = std::env::var("VERIF_SEED").ok().and_then(|s| s.parse::<i64>().ok()).map(|v| v as u64).unwrap_or(1);
    let mut replay_case = None;
    if let Some(r) = &replay {
        if let Some(s) = r.get("seed").and_then(|s| s.as_u64()) {
            seed = s;
        }
        if r.get("tier").and_then(|s| s.as_str()) == Some("thorough") {
            tier = Tier::Thorough;
        }
        replay_case = r.get("case").cloned();
    }
    // debugging aid: run only one stratum (no evidence is written in this mode)
    if replay_case.is_none() {
        if let Ok(s) = std::env::var("TCV_ONLY") {
            replay_case = Some(serde_json::json!({ "stratum": s }));
        }
    }
    let verif_dir = std::env::var("VERIF_DIR").map(std::path::PathBuf::from).unwrap_or_else(|_| "/verif".into());
    let ctx = Ctx { id: id.clone(), tier, seed, replay: replay_case, verif_dir };
    // generous wall-clock watchdog: truncates the exploration, never decides a verdict
    set_watchdog(match tier {
        Tier::Quick => 900,
        Tier::Thorough => 3 * 3600,
    });
    // keep panics of the code under test out of the log unless asked for
    tcv::report::install_panic_recorder();
    let started = Instant::now();
    let out = match props::dispatch(&ctx) {
        Some(o) => o,
        None => {
            eprintln!("unknown property {id}");
            std::process::exit(64);
        }
    };
    std::process::exit(finish(&ctx, out, started));
}

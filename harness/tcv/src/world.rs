//! Engine E1 plumbing: N real replicas (on `ObservedStorage` over in-memory or SQLite storage)
//! around one harness chain server, abstract history actions concretised into *valid* operations
//! at execution time, and the monitors shared by several properties (replica invariant,
//! quiescence, convergence with the chain replay).

use async_trait::async_trait;
use chrono::{DateTime, TimeZone, Utc};
use serde_json::{json, Value};
use taskchampion::storage::inmemory::InMemoryStorage;
use taskchampion::storage::{AccessMode, Storage, StorageTxn};
use taskchampion::{Operation, Operations, Replica, Server, SqliteStorage};
use uuid::Uuid;

use crate::exec::block_on;
use crate::model::{self, MOp, TaskM, Tasks};
use crate::obs::{ObsCtl, ObservedStorage};
use crate::rng::Rng;
use crate::srv::ChainRef;

/// Type-erased storage so that every replica in the harness has one concrete type.
pub struct DynStorage(pub Box<dyn Storage>);

#[async_trait]
impl Storage for DynStorage {
    async fn txn<'a>(&'a mut self) -> Result<Box<dyn StorageTxn + Send + 'a>, taskchampion::Error> {
        self.0.txn().await
    }
}

pub type Rep = Replica<ObservedStorage<DynStorage>>;

pub struct TempDir(pub std::path::PathBuf);

impl TempDir {
    pub fn new(tag: &str) -> TempDir {
        use std::sync::atomic::{AtomicU64, Ordering};
        static N: AtomicU64 = AtomicU64::new(0);
        let base = std::env::var("TCV_TMP").unwrap_or_else(|_| "/var/tmp".into());
        let p = std::path::PathBuf::from(base).join(format!(
            "tcv-{}-{}-{}",
            std::process::id(),
            tag,
            N.fetch_add(1, Ordering::Relaxed)
        ));
        std::fs::create_dir_all(&p).expect("create temp dir");
        TempDir(p)
    }
    pub fn path(&self) -> &std::path::Path {
        &self.0
    }
}

impl Drop for TempDir {
    fn drop(&mut self) {
        let _ = std::fs::remove_dir_all(&self.0);
    }
}

#[derive(Clone, Copy, PartialEq, Eq, Debug)]
pub enum StoreKind {
    Mem,
    Sqlite,
}

pub struct R {
    pub id: usize,
    pub rep: Rep,
    pub ctl: ObsCtl,
    pub server: Box<dyn Server>,
    pub dir: Option<TempDir>,
    pub kind: StoreKind,
}

pub fn open_storage(kind: StoreKind, dir: Option<&std::path::Path>) -> DynStorage {
    match kind {
        StoreKind::Mem => DynStorage(Box::new(InMemoryStorage::new())),
        StoreKind::Sqlite => {
            let d = dir.expect("sqlite needs a dir");
            let s = block_on(SqliteStorage::new(d, AccessMode::ReadWrite, true)).expect("open sqlite storage");
            DynStorage(Box::new(s))
        }
    }
}

pub fn new_replica(id: usize, kind: StoreKind, chain: &ChainRef) -> R {
    let dir = if kind == StoreKind::Sqlite { Some(TempDir::new("rep")) } else { None };
    let st = open_storage(kind, dir.as_ref().map(|d| d.path()));
    let (obs, ctl) = ObservedStorage::new(st);
    R { id, rep: Replica::new(obs), ctl, server: chain.client(id), dir, kind }
}

/// T0 for generated timestamps; small integer offsets make ties exact.
pub fn ts(offset_s: i64) -> DateTime<Utc> {
    Utc.timestamp_opt(1_600_000_000 + offset_s, 0).unwrap()
}

pub fn ts_ns(offset_s: i64, nanos: u32) -> DateTime<Utc> {
    Utc.timestamp_opt(1_600_000_000 + offset_s, nanos).unwrap()
}

/// Abstract operation: which task / property / value, made concrete against the replica's state.
#[derive(Clone, Debug, PartialEq)]
pub enum AbsOp {
    Create(Uuid),
    Delete(Uuid),
    Set(Uuid, String, String, DateTime<Utc>),
    Remove(Uuid, String, DateTime<Utc>),
    UndoPoint,
}

impl AbsOp {
    pub fn uuid(&self) -> Option<Uuid> {
        match self {
            AbsOp::Create(u) | AbsOp::Delete(u) | AbsOp::Set(u, ..) | AbsOp::Remove(u, ..) => Some(*u),
            AbsOp::UndoPoint => None,
        }
    }
}

/// Build a batch of operations that are *valid in the replica's current state* (the OT scheme
/// assumes replicas only commit valid operations): create only if absent, update/delete only if
/// present (an update of an absent task first creates it), with correct old values.
pub fn concretise(rep: &mut Rep, abs: &[AbsOp]) -> Result<Operations, String> {
    let mut shadow: std::collections::BTreeMap<Uuid, Option<TaskM>> = Default::default();
    let mut ops = Operations::new();
    for a in abs {
        if let Some(u) = a.uuid() {
            if !shadow.contains_key(&u) {
                let cur = block_on(rep.get_task_data(u)).map_err(|e| format!("get_task_data: {e}"))?;
                shadow.insert(u, cur.map(|td| td.iter().map(|(k, v)| (k.clone(), v.clone())).collect()));
            }
        }
        match a {
            AbsOp::UndoPoint => ops.push(Operation::UndoPoint),
            AbsOp::Create(u) => {
                let e = shadow.get_mut(u).unwrap();
                if e.is_none() {
                    ops.push(Operation::Create { uuid: *u });
                    *e = Some(TaskM::new());
                }
            }
            AbsOp::Delete(u) => {
                let e = shadow.get_mut(u).unwrap();
                if let Some(t) = e.take() {
                    ops.push(Operation::Delete { uuid: *u, old_task: t.into_iter().collect() });
                }
            }
            AbsOp::Set(u, p, v, t) => {
                let e = shadow.get_mut(u).unwrap();
                if e.is_none() {
                    ops.push(Operation::Create { uuid: *u });
                    *e = Some(TaskM::new());
                }
                let m = e.as_mut().unwrap();
                let old = m.insert(p.clone(), v.clone());
                ops.push(Operation::Update { uuid: *u, property: p.clone(), old_value: old, value: Some(v.clone()), timestamp: *t });
            }
            AbsOp::Remove(u, p, t) => {
                let e = shadow.get_mut(u).unwrap();
                if let Some(m) = e.as_mut() {
                    let old = m.remove(p);
                    ops.push(Operation::Update { uuid: *u, property: p.clone(), old_value: old, value: None, timestamp: *t });
                }
            }
        }
    }
    Ok(ops)
}

pub fn show_ops(ops: &[Operation]) -> Vec<String> {
    ops.iter()
        .map(|o| match model::from_operation(o) {
            Some(m) => m.short(),
            None => "UndoPoint".to_string(),
        })
        .collect()
}

/// `tasks == replay(chain up to base_version) ⊕ unsynced operations` on the stored data.
pub fn check_invariant(r: &R, chain: &ChainRef) -> Result<(), String> {
    let d = r.ctl.last();
    let c = chain.0.borrow();
    let mut expect = c.replay_to_version(d.base).map_err(|e| format!("replica {} base version: {e}", r.id))?;
    for op in &d.unsynced {
        if let Some(m) = model::from_operation(op) {
            model::apply(&mut expect, &m);
        }
    }
    if expect != d.tasks {
        return Err(format!(
            "replica {} stored tasks != replay(chain..base) ⊕ unsynced [{} unsynced]: {}",
            r.id,
            d.unsynced.len(),
            model::diff_tasks(&d.tasks, &expect)
        ));
    }
    Ok(())
}

pub fn is_out_of_sync(e: &taskchampion::Error) -> bool {
    format!("{e:#}").to_lowercase().contains("out of sync") || matches!(e, taskchampion::Error::OutOfSync)
}

pub fn sync(r: &mut R, chain: &ChainRef, avoid_snapshots: bool) -> Result<(), taskchampion::Error> {
    chain.begin_sync(r.id);
    block_on(r.rep.sync(&mut r.server, avoid_snapshots))
}

/// Drive all replicas to quiescence: rounds of sync until a full round adds no version and every
/// replica has nothing unsynchronised. Bounded (liveness in bounded form).
pub fn quiesce(reps: &mut [R], chain: &ChainRef, max_rounds: usize) -> Result<usize, String> {
    for round in 0..max_rounds {
        let before = chain.0.borrow().versions.len();
        for r in reps.iter_mut() {
            sync(r, chain, false).map_err(|e| format!("sync of replica {} failed during quiescence: {e:#}", r.id))?;
        }
        let after = chain.0.borrow().versions.len();
        let pending: usize = reps.iter().map(|r| r.ctl.last().unsynced.len()).sum();
        if after == before && pending == 0 {
            return Ok(round + 1);
        }
    }
    Err(format!("no quiescence within {max_rounds} rounds"))
}

/// At quiescence: every replica equals the chain replay and is based on the chain head.
pub fn check_converged(reps: &mut [R], chain: &ChainRef) -> Result<Tasks, String> {
    let expect = chain.0.borrow().replay()?;
    let latest = chain.0.borrow().latest();
    for r in reps.iter_mut() {
        let got = block_on(model::replica_tasks(&mut r.rep))?;
        if got != expect {
            return Err(format!("replica {} != chain replay: {}", r.id, model::diff_tasks(&got, &expect)));
        }
        let d = r.ctl.last();
        if d.tasks != expect {
            return Err(format!("replica {} stored dump != chain replay: {}", r.id, model::diff_tasks(&d.tasks, &expect)));
        }
        if d.base != latest && !(latest.is_nil()) {
            return Err(format!("replica {} base version {} != chain head {}", r.id, d.base, latest));
        }
    }
    Ok(expect)
}

// ------------------------------------------------------------------------------------------------
// History generation
// ------------------------------------------------------------------------------------------------

#[derive(Clone, Debug)]
pub enum Act {
    Commit { r: usize, ops: Vec<AbsOp> },
    Sync { r: usize },
}

#[derive(Clone, Debug)]
pub struct GenCfg {
    pub replicas: usize,
    pub tasks: usize,
    pub props: usize,
    pub actions: usize,
    pub max_batch: usize,
    /// probability (per mille) that a value is a big string (0.3–1.1 MB)
    pub big_per_mille: u32,
    pub sync_per_cent: u32,
}

pub struct Gen {
    pub rng: Rng,
    pub cfg: GenCfg,
    pub uuids: Vec<Uuid>,
    pub counter: u64,
}

impl Gen {
    pub fn new(mut rng: Rng, cfg: GenCfg) -> Gen {
        let uuids = (0..cfg.tasks).map(|_| rng.uuid()).collect();
        Gen { rng, cfg, uuids, counter: 0 }
    }

    pub fn timestamp(&mut self) -> DateTime<Utc> {
        // tied, increasing, decreasing, far past / future
        match self.rng.below(20) {
            0 => ts(-1_000_000_000),
            1 => ts(2_000_000_000),
            2..=7 => ts(self.rng.range(0, 3)),
            // sub-second instants: same second, different (or equal) fractions
            8..=11 => ts_ns(self.rng.range(0, 2), *self.rng.pick(&[0u32, 200_000_000, 700_000_000, 999_999_999])),
            _ => ts(self.rng.range(0, 40)),
        }
    }

    pub fn value(&mut self, r: usize) -> String {
        self.counter += 1;
        if self.cfg.big_per_mille > 0 && self.rng.chance(self.cfg.big_per_mille, 1000) {
            let size = 300_000 + self.rng.below(800_000);
            let mut s = format!("B{}-{}-", r, self.counter);
            s.extend(std::iter::repeat('x').take(size));
            return s;
        }
        match self.rng.below(8) {
            0 | 1 => "a".into(),
            2 | 3 => "b".into(),
            // the empty string is a value, and differs from "no value"
            4 => String::new(),
            _ => format!("r{}-{}", r, self.counter),
        }
    }

    pub fn abs_op(&mut self, r: usize) -> AbsOp {
        let u = *self.rng.pick(&self.uuids);
        let p = format!("p{}", self.rng.below(self.cfg.props));
        match self.rng.below(12) {
            0 => AbsOp::Create(u),
            1 => AbsOp::Delete(u),
            2 | 3 => {
                let t = self.timestamp();
                AbsOp::Remove(u, p, t)
            }
            _ => {
                let v = self.value(r);
                let t = self.timestamp();
                AbsOp::Set(u, p, v, t)
            }
        }
    }

    pub fn history(&mut self) -> Vec<Act> {
        let mut out = Vec::new();
        for _ in 0..self.cfg.actions {
            let r = self.rng.below(self.cfg.replicas);
            if self.rng.chance(self.cfg.sync_per_cent, 100) {
                out.push(Act::Sync { r });
            } else {
                let n = 1 + self.rng.below(self.cfg.max_batch);
                let ops = (0..n).map(|_| self.abs_op(r)).collect();
                out.push(Act::Commit { r, ops });
            }
        }
        out
    }
}

pub fn show_abs(a: &AbsOp) -> String {
    match a {
        AbsOp::Create(u) => format!("create {}", model::su(*u)),
        AbsOp::Delete(u) => format!("delete {}", model::su(*u)),
        AbsOp::Set(u, p, v, t) => format!("set {}.{}={} @{}", model::su(*u), p, model::trunc(v), t.timestamp() - 1_600_000_000),
        AbsOp::Remove(u, p, t) => format!("remove {}.{} @{}", model::su(*u), p, t.timestamp() - 1_600_000_000),
        AbsOp::UndoPoint => "undo-point".into(),
    }
}

pub fn show_history(h: &[Act]) -> Value {
    json!(h
        .iter()
        .map(|a| match a {
            Act::Sync { r } => format!("R{r}: sync"),
            Act::Commit { r, ops } => format!("R{r}: commit [{}]", ops.iter().map(show_abs).collect::<Vec<_>>().join("; ")),
        })
        .collect::<Vec<_>>())
}

/// What the chain recorded for one sync call of one client.
pub fn versions_added_by(chain: &ChainRef, client: usize, sync_call: u64) -> usize {
    chain.0.borrow().versions.iter().filter(|v| v.client == client && v.sync_call == sync_call).count()
}

pub fn mops_of(ops: &[Operation]) -> Vec<MOp> {
    ops.iter().filter_map(model::from_operation).collect()
}

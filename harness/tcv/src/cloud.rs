//! Shared plumbing for the object-store checks (C08 cloud part, C09, C10, C11 cloud part, C13):
//! worlds over the hook's in-memory store, gated client handles, client scripts that record
//! call/return events, and the audit helpers (final chain walk, `latest` timeline).

use std::sync::{Arc, Mutex, OnceLock};
use taskchampion::server::verif::{CloudHandle, GateDecision, GateEvent, GateFn, LogEntry, MemService, MemStore};
use taskchampion::server::{AddVersionResult, GetVersionResult, Server};
use uuid::Uuid;

use crate::exec::{block_on, Gates};

pub const SECRET: &[u8] = b"verif-secret";
pub const SALT: &[u8] = b"0123456789abcdef";

/// PBKDF2 (600 000 rounds) is paid once per process; every world re-uses the derived key through
/// `CloudHandle::with_key_of` and carries the same "salt" object.
fn donor() -> &'static Mutex<CloudHandle> {
    static D: OnceLock<Mutex<CloudHandle>> = OnceLock::new();
    D.get_or_init(|| {
        let store = MemStore::new();
        store.put_raw("salt", 0, SALT.to_vec());
        let h = block_on(CloudHandle::new(MemService::new(store, 999, None, 1000), SECRET.to_vec())).expect("derive key");
        Mutex::new(h)
    })
}

pub fn classify(name: &str) -> &'static str {
    if name == "latest" {
        "latest"
    } else if name == "salt" {
        "salt"
    } else if name.starts_with("v-") {
        "version"
    } else if name.starts_with("s-") {
        "snapshot"
    } else {
        "other"
    }
}

pub fn gate_fn(gates: Gates) -> GateFn {
    Arc::new(move |ev: GateEvent| {
        let g = gates.clone();
        Box::pin(async move {
            let d = g.pass(ev.client as usize, format!("{:?}:{}", ev.op, classify(&ev.name))).await;
            match d {
                0 => GateDecision::Proceed,
                1 => GateDecision::FailBefore,
                _ => GateDecision::FailAfter,
            }
        })
    })
}

pub struct World {
    pub store: MemStore,
    pub now: u64,
}

impl World {
    pub fn new() -> World {
        let store = MemStore::new();
        let now = std::time::SystemTime::now().duration_since(std::time::UNIX_EPOCH).unwrap().as_secs();
        store.set_clock(now);
        store.put_raw("salt", now, SALT.to_vec());
        World { store, now }
    }
    /// A handle whose every object-store request parks at `gates` under client id `client`.
    pub fn gated(&self, client: usize, gates: &Gates, page_size: usize) -> CloudHandle {
        let d = donor().lock().unwrap();
        CloudHandle::with_key_of(&d, MemService::new(self.store.clone(), client as u32, Some(gate_fn(gates.clone())), page_size))
    }
    /// An ungated handle (audits, sequential set-up).
    pub fn plain(&self, client: usize) -> CloudHandle {
        let d = donor().lock().unwrap();
        CloudHandle::with_key_of(&d, MemService::new(self.store.clone(), client as u32, None, 3))
    }
    pub fn latest(&self) -> Option<Uuid> {
        self.store.get_raw("latest").and_then(|(_, v)| Uuid::try_parse_ascii(&v).ok())
    }
    /// Walk the chain from `from` with a fresh handle: (version id, parent, bytes) in order.
    pub fn walk(&self, from: Uuid) -> Result<Vec<(Uuid, Uuid, Vec<u8>)>, String> {
        let mut h = self.plain(998);
        let mut out = vec![];
        let mut cur = from;
        for _ in 0..10_000 {
            match block_on(h.get_child_version(cur)).map_err(|e| format!("walk: get_child_version({cur}): {e}"))? {
                GetVersionResult::NoSuchVersion => return Ok(out),
                GetVersionResult::Version { version_id, parent_version_id, history_segment } => {
                    out.push((version_id, parent_version_id, history_segment));
                    cur = version_id;
                }
            }
        }
        Err("walk: chain longer than 10000 or cyclic".into())
    }
    pub fn version_objects(&self) -> Vec<(Uuid, Uuid)> {
        self.store
            .names()
            .iter()
            .filter_map(|n| {
                if n.len() == 67 && n.starts_with("v-") {
                    Some((Uuid::try_parse(&n[2..34]).ok()?, Uuid::try_parse(&n[35..]).ok()?))
                } else {
                    None
                }
            })
            .collect()
    }
    pub fn snapshot_objects(&self) -> Vec<Uuid> {
        self.store.names().iter().filter_map(|n| if n.len() == 34 && n.starts_with("s-") { Uuid::try_parse(&n[2..]).ok() } else { None }).collect()
    }
}

impl Default for World {
    fn default() -> Self {
        Self::new()
    }
}

pub fn version_name(p: Uuid, c: Uuid) -> String {
    format!("v-{}-{}", p.as_simple(), c.as_simple())
}

/// A client-side event, recorded at the client boundary (call before invoking, return after).
#[derive(Clone, Debug)]
pub enum CEv {
    AddCall { client: usize, parent: Uuid, bytes: Vec<u8>, log_at: usize },
    AddRet { client: usize, parent: Uuid, bytes: Vec<u8>, result: Result<AddVersionResult2, String>, log_at: usize },
    GetRet { client: usize, parent: Uuid, result: Result<Option<(Uuid, Vec<u8>)>, String> },
    SnapRet { client: usize, version: Uuid, ok: bool },
    GetSnapRet { client: usize, result: Result<Option<(Uuid, Vec<u8>)>, String> },
    CleanupRet { client: usize, ok: bool },
}

#[derive(Clone, Debug, PartialEq)]
pub enum AddVersionResult2 {
    Ok(Uuid),
    Expected(Uuid),
}

pub type EvLog = Arc<Mutex<Vec<CEv>>>;

pub async fn c_add(h: &mut CloudHandle, store: &MemStore, log: &EvLog, client: usize, parent: Uuid, bytes: Vec<u8>) -> Result<AddVersionResult2, String> {
    let at = store.log_len();
    log.lock().unwrap().push(CEv::AddCall { client, parent, bytes: bytes.clone(), log_at: at });
    let r = h.add_version(parent, bytes.clone()).await;
    let res = match r {
        Ok((AddVersionResult::Ok(v), _)) => Ok(AddVersionResult2::Ok(v)),
        Ok((AddVersionResult::ExpectedParentVersion(v), _)) => Ok(AddVersionResult2::Expected(v)),
        Err(e) => Err(e.to_string()),
    };
    log.lock().unwrap().push(CEv::AddRet { client, parent, bytes, result: res.clone(), log_at: store.log_len() });
    res
}

pub async fn c_get(h: &mut CloudHandle, log: &EvLog, client: usize, parent: Uuid) -> Result<Option<(Uuid, Vec<u8>)>, String> {
    let r = h.get_child_version(parent).await;
    let res = match r {
        Ok(GetVersionResult::NoSuchVersion) => Ok(None),
        Ok(GetVersionResult::Version { version_id, history_segment, .. }) => Ok(Some((version_id, history_segment))),
        Err(e) => Err(e.to_string()),
    };
    log.lock().unwrap().push(CEv::GetRet { client, parent, result: res.clone() });
    res
}

/// Walk to the end of the chain from `base`, then add; on rejection walk again and retry.
pub async fn script_adder(mut h: CloudHandle, store: MemStore, log: EvLog, client: usize, mut base: Uuid, payloads: Vec<Vec<u8>>, max_tries: usize) -> usize {
    let mut added = 0;
    for p in payloads {
        let mut tries = 0;
        loop {
            // pull
            let mut guard = 0;
            while let Ok(Some((v, _))) = c_get(&mut h, &log, client, base).await {
                base = v;
                guard += 1;
                if guard > 200 {
                    break;
                }
            }
            match c_add(&mut h, &store, &log, client, base, p.clone()).await {
                Ok(AddVersionResult2::Ok(v)) => {
                    base = v;
                    added += 1;
                    break;
                }
                Ok(AddVersionResult2::Expected(_)) | Err(_) => {
                    tries += 1;
                    if tries >= max_tries {
                        break;
                    }
                }
            }
        }
    }
    added
}

pub async fn script_reader(mut h: CloudHandle, log: EvLog, client: usize, walks: usize) -> usize {
    let mut seen = 0;
    for _ in 0..walks {
        let mut base = Uuid::nil();
        let mut guard = 0;
        while let Ok(Some((v, _))) = c_get(&mut h, &log, client, base).await {
            base = v;
            seen += 1;
            guard += 1;
            if guard > 200 {
                break;
            }
        }
    }
    seen
}

pub async fn script_snapshot(mut h: CloudHandle, log: EvLog, client: usize, version: Uuid, bytes: Vec<u8>) -> usize {
    let ok = h.add_snapshot(version, bytes).await.is_ok();
    log.lock().unwrap().push(CEv::SnapRet { client, version, ok });
    let r = h.get_snapshot().await;
    log.lock().unwrap().push(CEv::GetSnapRet { client, result: r.map_err(|e| e.to_string()) });
    ok as usize
}

/// Like a real replica told that a snapshot is urgent: walk to the end of the chain, add one
/// version, and on success store a snapshot *of that new version*. `make_snapshot` builds the
/// snapshot bytes from all version payloads up to and including the new one.
pub async fn script_adder_snapshot(
    mut h: CloudHandle,
    store: MemStore,
    log: EvLog,
    client: usize,
    mut base: Uuid,
    mut seen: Vec<Vec<u8>>,
    payload: Vec<u8>,
    make_snapshot: fn(&[Vec<u8>]) -> Vec<u8>,
) -> usize {
    for _try in 0..6 {
        let mut guard = 0;
        while let Ok(Some((v, bytes))) = c_get(&mut h, &log, client, base).await {
            base = v;
            seen.push(bytes);
            guard += 1;
            if guard > 200 {
                break;
            }
        }
        if let Ok(AddVersionResult2::Ok(v)) = c_add(&mut h, &store, &log, client, base, payload.clone()).await {
            seen.push(payload.clone());
            let ok = h.add_snapshot(v, make_snapshot(&seen)).await.is_ok();
            log.lock().unwrap().push(CEv::SnapRet { client, version: v, ok });
            return 1;
        }
    }
    0
}

pub async fn script_cleanup(mut h: CloudHandle, log: EvLog, client: usize) -> usize {
    let ok = h.cleanup().await.is_ok();
    log.lock().unwrap().push(CEv::CleanupRet { client, ok });
    ok as usize
}

/// Values of "latest" that were current at some point in the store-log interval [from, to].
pub fn latest_during(store_log: &[LogEntry], from: usize, to: usize, initial: Option<Uuid>) -> Vec<Option<Uuid>> {
    let parse = |v: &Option<Vec<u8>>| v.as_ref().and_then(|b| Uuid::try_parse_ascii(b).ok());
    let mut out = vec![];
    let before = if from == 0 { initial } else { parse(&store_log[from - 1].latest_after) };
    out.push(before);
    for e in &store_log[from..to.min(store_log.len())] {
        let l = parse(&e.latest_after);
        if !out.contains(&l) {
            out.push(l);
        }
    }
    out
}

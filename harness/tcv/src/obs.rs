//! `ObservedStorage<S>`: the single storage-side instrument. It wraps any `Storage` behind the
//! public trait, so a real `Replica` runs on top of it. It
//!   * counts every `StorageTxn` call (and `Storage::txn`) and consults a fault plan first:
//!     return an error *before* the call takes effect, park forever (the harness then drops the
//!     future = "the process stops before the transaction commits"), or `abort()` the process;
//!   * immediately before delegating `commit`, reads tasks / unsynced operations / base version /
//!     working set through the same inner transaction and, if the commit succeeds, publishes that
//!     dump. A replica's stored state changes only at commits, so the latest published dump *is*
//!     the stored state.

use async_trait::async_trait;
use std::sync::{Arc, Mutex};
use taskchampion::storage::{Storage, StorageTxn, TaskMap};
use taskchampion::{Error, Operation};
use uuid::Uuid;

use crate::model::{tasks_from_vec, Tasks};

type Result<T> = std::result::Result<T, Error>;

#[derive(Clone, Debug, PartialEq)]
pub struct Dump {
    pub tasks: Tasks,
    pub unsynced: Vec<Operation>,
    pub base: Uuid,
    pub ws: Vec<Option<Uuid>>,
}

impl Default for Dump {
    fn default() -> Self {
        Dump { tasks: Tasks::new(), unsynced: vec![], base: Uuid::nil(), ws: vec![None] }
    }
}

#[derive(Clone, Copy, Debug, PartialEq, Eq)]
pub enum FaultKind {
    /// return `Err` instead of performing the call
    Err,
    /// never return (harness drops the future: process stop without commit)
    Park,
    /// `abort()` the whole process right before the call (child-process crash tests)
    Abort,
    /// perform the call, then `abort()` (only meaningful for `commit`)
    AbortAfter,
}

#[derive(Default)]
pub struct ObsState {
    /// number of calls seen while armed
    pub calls: u64,
    pub armed: bool,
    pub fault: Option<(u64, FaultKind)>,
    pub fault_hit: bool,
    pub parked: bool,
    pub call_names: Vec<&'static str>,
    pub record_names: bool,
    pub commits: u64,
    pub last: Option<Dump>,
    /// dumps of every commit while `keep_history`
    pub history: Vec<Dump>,
    pub keep_history: bool,
    /// skip the commit-time dump (for very large states / pure fault runs)
    pub no_dump: bool,
}

#[derive(Clone, Default)]
pub struct ObsCtl(pub Arc<Mutex<ObsState>>);

impl ObsCtl {
    pub fn last(&self) -> Dump {
        self.0.lock().unwrap().last.clone().unwrap_or_default()
    }
    pub fn arm(&self, fault: Option<(u64, FaultKind)>, record_names: bool) {
        let mut s = self.0.lock().unwrap();
        s.calls = 0;
        s.armed = true;
        s.fault = fault;
        s.fault_hit = false;
        s.parked = false;
        s.record_names = record_names;
        s.call_names.clear();
    }
    pub fn disarm(&self) -> (u64, bool, Vec<&'static str>) {
        let mut s = self.0.lock().unwrap();
        s.armed = false;
        s.fault = None;
        let names = std::mem::take(&mut s.call_names);
        (s.calls, s.fault_hit, names)
    }
    pub fn parked(&self) -> bool {
        self.0.lock().unwrap().parked
    }
    pub fn commits(&self) -> u64 {
        self.0.lock().unwrap().commits
    }
}

pub struct ObservedStorage<S: Storage> {
    inner: S,
    pub ctl: ObsCtl,
}

impl<S: Storage> ObservedStorage<S> {
    pub fn new(inner: S) -> (Self, ObsCtl) {
        let ctl = ObsCtl::default();
        (ObservedStorage { inner, ctl: ctl.clone() }, ctl)
    }
}

enum Gate {
    Go,
    Err,
    Park,
    AbortAfter,
}

fn gate(ctl: &ObsCtl, name: &'static str) -> Gate {
    let mut s = ctl.0.lock().unwrap();
    if !s.armed {
        return Gate::Go;
    }
    s.calls += 1;
    if s.record_names {
        s.call_names.push(name);
    }
    if let Some((at, kind)) = s.fault {
        if at == s.calls {
            s.fault_hit = true;
            match kind {
                FaultKind::Err => return Gate::Err,
                FaultKind::Park => {
                    s.parked = true;
                    return Gate::Park;
                }
                FaultKind::Abort => {
                    // make sure nothing of ours is buffered, then die like a killed process
                    unsafe { libc::abort() }
                }
                FaultKind::AbortAfter => return Gate::AbortAfter,
            }
        }
    }
    Gate::Go
}

fn injected(name: &str) -> Error {
    Error::Database(format!("verif: injected storage fault at {name}"))
}

#[async_trait]
impl<S: Storage> Storage for ObservedStorage<S> {
    async fn txn<'a>(&'a mut self) -> Result<Box<dyn StorageTxn + Send + 'a>> {
        match gate(&self.ctl, "txn") {
            Gate::Go | Gate::AbortAfter => {}
            Gate::Err => return Err(injected("txn")),
            Gate::Park => {
                crate::exec::Never.await;
            }
        }
        let inner = self.inner.txn().await?;
        Ok(Box::new(ObsTxn { inner, ctl: self.ctl.clone() }))
    }
}

struct ObsTxn<'a> {
    inner: Box<dyn StorageTxn + Send + 'a>,
    ctl: ObsCtl,
}

macro_rules! gated {
    ($self:ident, $name:literal, $call:expr) => {{
        match gate(&$self.ctl, $name) {
            Gate::Go | Gate::AbortAfter => {}
            Gate::Err => return Err(injected($name)),
            Gate::Park => {
                crate::exec::Never.await;
            }
        }
        $call
    }};
}

#[async_trait]
impl StorageTxn for ObsTxn<'_> {
    async fn get_task(&mut self, uuid: Uuid) -> Result<Option<TaskMap>> {
        gated!(self, "get_task", self.inner.get_task(uuid).await)
    }
    async fn get_pending_tasks(&mut self) -> Result<Vec<(Uuid, TaskMap)>> {
        gated!(self, "get_pending_tasks", self.inner.get_pending_tasks().await)
    }
    async fn create_task(&mut self, uuid: Uuid) -> Result<bool> {
        gated!(self, "create_task", self.inner.create_task(uuid).await)
    }
    async fn set_task(&mut self, uuid: Uuid, task: TaskMap) -> Result<()> {
        gated!(self, "set_task", self.inner.set_task(uuid, task).await)
    }
    async fn delete_task(&mut self, uuid: Uuid) -> Result<bool> {
        gated!(self, "delete_task", self.inner.delete_task(uuid).await)
    }
    async fn all_tasks(&mut self) -> Result<Vec<(Uuid, TaskMap)>> {
        gated!(self, "all_tasks", self.inner.all_tasks().await)
    }
    async fn all_task_uuids(&mut self) -> Result<Vec<Uuid>> {
        gated!(self, "all_task_uuids", self.inner.all_task_uuids().await)
    }
    async fn base_version(&mut self) -> Result<Uuid> {
        gated!(self, "base_version", self.inner.base_version().await)
    }
    async fn set_base_version(&mut self, version: Uuid) -> Result<()> {
        gated!(self, "set_base_version", self.inner.set_base_version(version).await)
    }
    async fn get_task_operations(&mut self, uuid: Uuid) -> Result<Vec<Operation>> {
        gated!(self, "get_task_operations", self.inner.get_task_operations(uuid).await)
    }
    async fn unsynced_operations(&mut self) -> Result<Vec<Operation>> {
        gated!(self, "unsynced_operations", self.inner.unsynced_operations().await)
    }
    async fn num_unsynced_operations(&mut self) -> Result<usize> {
        gated!(self, "num_unsynced_operations", self.inner.num_unsynced_operations().await)
    }
    async fn add_operation(&mut self, op: Operation) -> Result<()> {
        gated!(self, "add_operation", self.inner.add_operation(op).await)
    }
    async fn remove_operation(&mut self, op: Operation) -> Result<()> {
        gated!(self, "remove_operation", self.inner.remove_operation(op).await)
    }
    async fn sync_complete(&mut self) -> Result<()> {
        gated!(self, "sync_complete", self.inner.sync_complete().await)
    }
    async fn get_working_set(&mut self) -> Result<Vec<Option<Uuid>>> {
        gated!(self, "get_working_set", self.inner.get_working_set().await)
    }
    async fn add_to_working_set(&mut self, uuid: Uuid) -> Result<usize> {
        gated!(self, "add_to_working_set", self.inner.add_to_working_set(uuid).await)
    }
    async fn set_working_set_item(&mut self, index: usize, uuid: Option<Uuid>) -> Result<()> {
        gated!(self, "set_working_set_item", self.inner.set_working_set_item(index, uuid).await)
    }
    async fn clear_working_set(&mut self) -> Result<()> {
        gated!(self, "clear_working_set", self.inner.clear_working_set().await)
    }
    #[allow(clippy::wrong_self_convention)]
    async fn is_empty(&mut self) -> Result<bool> {
        gated!(self, "is_empty", self.inner.is_empty().await)
    }
    async fn commit(&mut self) -> Result<()> {
        let abort_after = match gate(&self.ctl, "commit") {
            Gate::Go => false,
            Gate::AbortAfter => true,
            Gate::Err => return Err(injected("commit")),
            Gate::Park => {
                crate::exec::Never.await;
                false
            }
        };
        let no_dump = self.ctl.0.lock().unwrap().no_dump;
        let dump = if no_dump {
            None
        } else {
            Some(Dump {
                tasks: tasks_from_vec(self.inner.all_tasks().await?),
                unsynced: self.inner.unsynced_operations().await?,
                base: self.inner.base_version().await?,
                ws: self.inner.get_working_set().await?,
            })
        };
        self.inner.commit().await?;
        if abort_after {
            unsafe { libc::abort() }
        }
        let mut s = self.ctl.0.lock().unwrap();
        s.commits += 1;
        if let Some(d) = dump {
            if s.keep_history {
                s.history.push(d.clone());
            }
            s.last = Some(d);
        }
        Ok(())
    }
}

//! Verdict plumbing: per-case results, accumulation across worker threads, evidence and replay
//! files, known-findings matching. Three-valued verdicts: violated (exit 1), held on what was
//! observed (exit 0), inconclusive (exit 2, no VIOLATION line).

use serde_json::{json, Map, Value};
use std::collections::{BTreeMap, HashSet};
use std::sync::atomic::{AtomicU64, Ordering};
use std::sync::Mutex;
use std::time::Instant;

#[derive(Clone, Debug)]
pub struct Violation {
    /// classifier output: which relation failed, where — never just the property id
    pub signature: String,
    pub message: String,
    /// everything needed to re-execute the case: stratum, case index, decisions, history
    pub replay: Value,
}

#[derive(Default)]
pub struct CaseOut {
    /// hash identifying this case among the non-trivial ones (None = trivial by the check's rule)
    pub nontrivial: Option<u64>,
    pub violations: Vec<Violation>,
    pub sample: Option<Value>,
    pub counters: BTreeMap<&'static str, u64>,
    /// harness-side trouble: never a violation
    pub inconclusive: Option<String>,
    /// additional evaluations performed inside this case (default 1)
    pub evaluations: u64,
}

impl CaseOut {
    pub fn new() -> CaseOut {
        CaseOut { evaluations: 1, ..Default::default() }
    }
    pub fn count(&mut self, k: &'static str, n: u64) {
        *self.counters.entry(k).or_insert(0) += n;
    }
    pub fn violate(&mut self, signature: impl Into<String>, message: impl Into<String>, replay: Value) {
        self.violations.push(Violation { signature: signature.into(), message: message.into(), replay });
    }
}

pub struct Acc {
    pub evaluations: u64,
    pub distinct: HashSet<u64>,
    pub violations: Vec<Violation>,
    pub samples: Vec<Value>,
    pub counters: BTreeMap<String, u64>,
    pub inconclusive: Vec<String>,
    pub strata: BTreeMap<String, u64>,
    pub exhaustive_parts: Vec<String>,
    pub max_samples: usize,
    /// the wall-clock watchdog cut the run short (fewer cases explored; not a verdict)
    pub truncated: bool,
}

impl Default for Acc {
    fn default() -> Self {
        Acc {
            evaluations: 0,
            distinct: HashSet::new(),
            violations: vec![],
            samples: vec![],
            counters: BTreeMap::new(),
            inconclusive: vec![],
            strata: BTreeMap::new(),
            exhaustive_parts: vec![],
            max_samples: 6,
            truncated: false,
        }
    }
}

impl Acc {
    pub fn absorb(&mut self, stratum: &str, c: CaseOut) {
        self.evaluations += c.evaluations;
        *self.strata.entry(stratum.to_string()).or_insert(0) += c.evaluations;
        if let Some(h) = c.nontrivial {
            // distinctness is per stratum-independent hash of the observed case
            self.distinct.insert(h ^ crate::rng::fnv(stratum.as_bytes()));
        }
        for v in c.violations {
            // keep at most 3 witnesses per signature
            if self.violations.iter().filter(|x| x.signature == v.signature).count() < 3 {
                self.violations.push(v);
            }
        }
        if let Some(s) = c.sample {
            let per = self.samples.iter().filter(|x| x.get("stratum").and_then(|v| v.as_str()) == Some(stratum)).count();
            if per < 2 && self.samples.len() < self.max_samples.max(2) * 4 {
                let mut s = s;
                if let Value::Object(m) = &mut s {
                    m.insert("stratum".into(), json!(stratum));
                }
                self.samples.push(s);
            }
        }
        for (k, n) in c.counters {
            *self.counters.entry(k.to_string()).or_insert(0) += n;
        }
        if let Some(i) = c.inconclusive {
            if self.inconclusive.len() < 10 {
                self.inconclusive.push(format!("{stratum}: {i}"));
            }
        }
    }
    pub fn counter(&self, k: &str) -> u64 {
        self.counters.get(k).copied().unwrap_or(0)
    }
    pub fn require(&mut self, k: &str, min: u64, why: &str) {
        if self.counter(k) < min {
            self.inconclusive.push(format!(
                "observed {}={} < {min}: {why}",
                k,
                self.counter(k)
            ));
        }
    }
}

/// Run `n` cases of one stratum on all cores; `f(case index)` must be deterministic in its index.
pub fn run_cases<F>(acc: &mut Acc, stratum: &str, n: u64, f: F)
where
    F: Fn(u64) -> CaseOut + Sync,
{
    run_cases_threads(acc, stratum, n, threads(), f)
}

pub fn threads() -> usize {
    std::env::var("VERIF_THREADS")
        .ok()
        .and_then(|s| s.parse().ok())
        .unwrap_or_else(|| std::thread::available_parallelism().map(|n| n.get()).unwrap_or(4))
}

pub fn run_cases_threads<F>(acc: &mut Acc, stratum: &str, n: u64, nthreads: usize, f: F)
where
    F: Fn(u64) -> CaseOut + Sync,
{
    let next = AtomicU64::new(0);
    let shared = Mutex::new(std::mem::take(acc));
    let deadline = deadline();
    let truncated = std::sync::atomic::AtomicBool::new(false);
    std::thread::scope(|s| {
        for _ in 0..nthreads.max(1).min(n.max(1) as usize) {
            s.spawn(|| {
                let mut local: Vec<CaseOut> = Vec::new();
                loop {
                    let i = next.fetch_add(1, Ordering::Relaxed);
                    if i >= n {
                        break;
                    }
                    if let Some(d) = deadline {
                        if Instant::now() > d {
                            truncated.store(true, Ordering::Relaxed);
                            next.store(n, Ordering::Relaxed);
                            break;
                        }
                    }
                    let out = std::panic::catch_unwind(std::panic::AssertUnwindSafe(|| f(i)));
                    match out {
                        Ok(c) => local.push(c),
                        Err(p) => {
                            let msg = panic_message(&p);
                            let mut c = CaseOut::new();
                            c.inconclusive = Some(format!("harness panic in case {i}: {msg}"));
                            local.push(c);
                        }
                    }
                    if local.len() >= 64 {
                        let mut a = shared.lock().unwrap();
                        for c in local.drain(..) {
                            a.absorb(stratum, c);
                        }
                    }
                }
                let mut a = shared.lock().unwrap();
                for c in local.drain(..) {
                    a.absorb(stratum, c);
                }
            });
        }
    });
    *acc = shared.into_inner().unwrap();
    if truncated.load(Ordering::Relaxed) {
        acc.truncated = true;
    }
}

pub fn panic_message(p: &Box<dyn std::any::Any + Send>) -> String {
    if let Some(s) = p.downcast_ref::<&str>() {
        s.to_string()
    } else if let Some(s) = p.downcast_ref::<String>() {
        s.clone()
    } else {
        "non-string panic payload".into()
    }
}

static START: Mutex<Option<(Instant, u64)>> = Mutex::new(None);

pub fn set_watchdog(secs: u64) {
    *START.lock().unwrap() = Some((Instant::now(), secs));
}

fn deadline() -> Option<Instant> {
    START.lock().unwrap().map(|(t, s)| t + std::time::Duration::from_secs(s))
}

pub struct Ctx {
    pub id: String,
    pub tier: Tier,
    pub seed: u64,
    pub replay: Option<Value>,
    pub verif_dir: std::path::PathBuf,
}

#[derive(Clone, Copy, PartialEq, Eq, Debug)]
pub enum Tier {
    Quick,
    Thorough,
}

impl Tier {
    pub fn pick(self, q: u64, t: u64) -> u64 {
        let scale: f64 = std::env::var("VERIF_SCALE").ok().and_then(|s| s.parse().ok()).unwrap_or(1.0);
        let v = match self {
            Tier::Quick => q,
            Tier::Thorough => t,
        };
        ((v as f64) * scale).ceil() as u64
    }
    pub fn name(self) -> &'static str {
        match self {
            Tier::Quick => "quick",
            Tier::Thorough => "thorough",
        }
    }
}

pub struct Outcome {
    pub level: &'static str,
    pub rule: String,
    pub acc: Acc,
    pub exhaustive: Option<bool>,
    pub assumptions: Vec<String>,
    pub extra: Map<String, Value>,
}

#[derive(Debug)]
pub struct KnownFinding {
    pub property: String,
    pub signature: String,
    pub what: String,
}

pub fn load_known(dir: &std::path::Path) -> Vec<KnownFinding> {
    let p = dir.join("known_findings.json");
    let Ok(s) = std::fs::read_to_string(p) else { return vec![] };
    let Ok(v) = serde_json::from_str::<Value>(&s) else { return vec![] };
    let mut out = vec![];
    if let Some(arr) = v.get("findings").and_then(|x| x.as_array()) {
        for f in arr {
            out.push(KnownFinding {
                property: f.get("property").and_then(|x| x.as_str()).unwrap_or("").to_string(),
                signature: f.get("signature").and_then(|x| x.as_str()).unwrap_or("").to_string(),
                what: f.get("what").and_then(|x| x.as_str()).unwrap_or("").to_string(),
            });
        }
    }
    out
}

/// Write evidence + replay files, print the verdict lines, return the process exit code.
pub fn finish(ctx: &Ctx, out: Outcome, started: Instant) -> i32 {
    let known = load_known(&ctx.verif_dir);
    let mut new_violations = vec![];
    let mut known_hits: BTreeMap<String, (String, u64)> = BTreeMap::new();
    for v in &out.acc.violations {
        if let Some(k) = known.iter().find(|k| k.property == ctx.id && k.signature == v.signature) {
            known_hits.entry(k.signature.clone()).or_insert((k.what.clone(), 0)).1 += 1;
        } else {
            new_violations.push(v.clone());
        }
    }
    let replay_dir = ctx.verif_dir.join("replays");
    let _ = std::fs::create_dir_all(&replay_dir);
    let mut lines = vec![];
    for (i, v) in new_violations.iter().enumerate() {
        let path = replay_dir.join(format!("{}-{}-{}-{}.json", ctx.id, ctx.tier.name(), ctx.seed, i));
        let doc = json!({
            "property": ctx.id, "tier": ctx.tier.name(), "seed": ctx.seed,
            "signature": v.signature, "message": v.message, "case": v.replay,
        });
        let _ = std::fs::write(&path, serde_json::to_vec_pretty(&doc).unwrap());
        lines.push(format!("VIOLATION property={} replay={}", ctx.id, path.display()));
        eprintln!("  [{}] {}", v.signature, v.message);
    }
    for (sig, (what, n)) in &known_hits {
        println!("KNOWN-FINDING: property={} {} [signature {}; {} witness(es) this run]", ctx.id, what, sig, n);
    }
    let wall = started.elapsed().as_secs_f64();
    let mut coverage = Map::new();
    coverage.insert("evaluations".into(), json!(out.acc.evaluations));
    coverage.insert("distinct_nontrivial".into(), json!(out.acc.distinct.len()));
    coverage.insert("rule".into(), json!(out.rule));
    coverage.insert("samples".into(), json!(out.acc.samples));
    coverage.insert("monitor_events".into(), json!(out.acc.counters));
    coverage.insert("strata".into(), json!(out.acc.strata));
    if !out.acc.exhaustive_parts.is_empty() {
        coverage.insert("exhaustive_parts".into(), json!(out.acc.exhaustive_parts));
    }
    if out.acc.truncated {
        coverage.insert("truncated_by_watchdog".into(), json!(true));
    }
    if let Some(e) = out.exhaustive {
        coverage.insert("exhaustive".into(), json!(e));
    }
    if !out.acc.inconclusive.is_empty() {
        coverage.insert("inconclusive".into(), json!(out.acc.inconclusive));
    }
    if !known_hits.is_empty() {
        coverage.insert(
            "known_findings_observed".into(),
            json!(known_hits.iter().map(|(s, (w, n))| json!({"signature": s, "what": w, "witnesses": n})).collect::<Vec<_>>()),
        );
    }
    for (k, v) in out.extra {
        coverage.insert(k, v);
    }
    let verdict = if !new_violations.is_empty() {
        "violated"
    } else if !out.acc.inconclusive.is_empty() {
        "inconclusive"
    } else {
        "held-on-observed"
    };
    coverage.insert("verdict".into(), json!(verdict));
    let ev = json!({
        "property_id": ctx.id, "tier": ctx.tier.name(), "seed": ctx.seed, "level": out.level,
        "coverage": coverage, "assumptions": out.assumptions, "wall_s": wall,
        "violations": new_violations.len(),
    });
    // sanitizer / scaled-down auxiliary runs must not overwrite the evidence of the real run
    let aux = std::env::var("TCV_NO_EVIDENCE").is_ok();
    if ctx.replay.is_none() && !aux {
        let evdir = ctx.verif_dir.join("evidence");
        let _ = std::fs::create_dir_all(&evdir);
        let tmp = evdir.join(format!("{}.json.tmp", ctx.id));
        let fin = evdir.join(format!("{}.json", ctx.id));
        std::fs::write(&tmp, serde_json::to_vec_pretty(&ev).unwrap()).expect("write evidence");
        std::fs::rename(&tmp, &fin).expect("rename evidence");
    }
    println!(
        "{} {} seed={} evaluations={} distinct_nontrivial={} wall={:.1}s verdict={}",
        ctx.id,
        ctx.tier.name(),
        ctx.seed,
        out.acc.evaluations,
        out.acc.distinct.len(),
        wall,
        verdict
    );
    let mut keys: Vec<_> = out.acc.counters.iter().collect();
    keys.sort();
    let obs: Vec<String> = keys.iter().map(|(k, v)| format!("{k}={v}")).collect();
    println!("  observed: {}", obs.join(" "));
    for l in &lines {
        println!("{l}");
    }
    if !new_violations.is_empty() {
        1
    } else if aux {
        0
    } else if !out.acc.inconclusive.is_empty() {
        for i in &out.acc.inconclusive {
            println!("INCONCLUSIVE: {i}");
        }
        2
    } else {
        0
    }
}

// ---- panic location recorder (for checks that run code under `catch_unwind`) ---------------------

thread_local! {
    static LAST_PANIC: std::cell::RefCell<Option<String>> = const { std::cell::RefCell::new(None) };
}

/// Install a panic hook that records "file:line: message" per thread instead of printing.
pub fn install_panic_recorder() {
    std::panic::set_hook(Box::new(|info| {
        let loc = info.location().map(|l| format!("{}:{}", l.file(), l.line())).unwrap_or_else(|| "?".into());
        let msg = if let Some(s) = info.payload().downcast_ref::<&str>() {
            s.to_string()
        } else if let Some(s) = info.payload().downcast_ref::<String>() {
            s.clone()
        } else {
            String::new()
        };
        LAST_PANIC.with(|p| *p.borrow_mut() = Some(format!("{loc}: {msg}")));
        if std::env::var("TCV_PANIC_TRACE").is_ok() {
            eprintln!("panic at {loc}: {msg}");
        }
    }));
}

pub fn take_last_panic() -> Option<String> {
    LAST_PANIC.with(|p| p.borrow_mut().take())
}

pub mod exec;
pub mod model;
pub mod obs;
pub mod props;
pub mod report;
pub mod rng;
pub mod srv;
pub mod world;

//! Deterministic PRNG (xoshiro256**, seeded through SplitMix64). Every random choice of every
//! check derives from `VERIF_SEED` through this type, so a (seed, stratum, case index) triple
//! replays a case exactly.

use uuid::Uuid;

#[derive(Clone, Debug)]
pub struct Rng {
    s: [u64; 4],
}

fn splitmix(x: &mut u64) -> u64 {
    *x = x.wrapping_add(0x9E37_79B9_7F4A_7C15);
    let mut z = *x;
    z = (z ^ (z >> 30)).wrapping_mul(0xBF58_476D_1CE4_E5B9);
    z = (z ^ (z >> 27)).wrapping_mul(0x94D0_49BB_1331_11EB);
    z ^ (z >> 31)
}

impl Rng {
    pub fn new(seed: u64) -> Rng {
        let mut x = seed;
        let mut s = [0u64; 4];
        for v in s.iter_mut() {
            *v = splitmix(&mut x);
        }
        Rng { s }
    }

    /// Derive an independent stream for (seed, label, index).
    pub fn derive(seed: u64, label: &str, index: u64) -> Rng {
        let mut h: u64 = 0xcbf2_9ce4_8422_2325;
        for b in label.bytes() {
            h ^= b as u64;
            h = h.wrapping_mul(0x0000_0100_0000_01B3);
        }
        let mut x = seed ^ h.rotate_left(17) ^ index.wrapping_mul(0xD6E8_FEB8_6659_FD93);
        let a = splitmix(&mut x);
        Rng::new(a ^ index)
    }

    pub fn next_u64(&mut self) -> u64 {
        let r = self.s[1].wrapping_mul(5).rotate_left(7).wrapping_mul(9);
        let t = self.s[1] << 17;
        self.s[2] ^= self.s[0];
        self.s[3] ^= self.s[1];
        self.s[1] ^= self.s[2];
        self.s[0] ^= self.s[3];
        self.s[2] ^= t;
        self.s[3] = self.s[3].rotate_left(45);
        r
    }

    /// Uniform in 0..n (n > 0).
    pub fn below(&mut self, n: usize) -> usize {
        debug_assert!(n > 0);
        (self.next_u64() % (n as u64)) as usize
    }

    /// Uniform in lo..=hi.
    pub fn range(&mut self, lo: i64, hi: i64) -> i64 {
        lo + (self.next_u64() % ((hi - lo + 1) as u64)) as i64
    }

    pub fn chance(&mut self, num: u32, den: u32) -> bool {
        (self.next_u64() % den as u64) < num as u64
    }

    pub fn pick<'a, T>(&mut self, xs: &'a [T]) -> &'a T {
        &xs[self.below(xs.len())]
    }

    pub fn shuffle<T>(&mut self, xs: &mut [T]) {
        for i in (1..xs.len()).rev() {
            let j = self.below(i + 1);
            xs.swap(i, j);
        }
    }

    pub fn uuid(&mut self) -> Uuid {
        let hi = self.next_u64() as u128;
        let lo = self.next_u64() as u128;
        // make it look like a v4 uuid
        let mut v = (hi << 64) | lo;
        v &= !(0xF000u128 << 64);
        v |= 0x4000u128 << 64;
        v &= !(0xC000_0000_0000_0000u128);
        v |= 0x8000_0000_0000_0000u128;
        Uuid::from_u128(v)
    }

    pub fn bytes(&mut self, n: usize) -> Vec<u8> {
        (0..n).map(|_| self.next_u64() as u8).collect()
    }
}

/// FNV-1a over a byte string; used for "distinct" counting.
pub fn fnv(data: &[u8]) -> u64 {
    let mut h: u64 = 0xcbf2_9ce4_8422_2325;
    for b in data {
        h ^= *b as u64;
        h = h.wrapping_mul(0x0000_0100_0000_01B3);
    }
    h
}

//! Miri workload: real replicas over InMemoryStorage, a minimal correct chain server, seeded small
//! histories (commit / sync / undo / rebuild / task mutators); convergence with the chain replay is
//! asserted so that the interpreter runs the same sync / transform / apply / undo / working-set
//! code the monitors watch. Miri checks for undefined behaviour and data races while it runs.

use async_trait::async_trait;
use std::cell::RefCell;
use std::collections::BTreeMap;
use std::future::Future;
use std::rc::Rc;
use std::sync::Arc;
use std::task::{Context, Poll, Wake, Waker};
use taskchampion::chrono::{TimeZone, Utc};
use taskchampion::server::{AddVersionResult, GetVersionResult, SnapshotUrgency};
use taskchampion::storage::inmemory::InMemoryStorage;
use taskchampion::{Operation, Operations, Replica, Server, Status};
use uuid::Uuid;

struct Noop;
impl Wake for Noop {
    fn wake(self: Arc<Self>) {}
}

fn block_on<F: Future>(f: F) -> F::Output {
    let mut f = std::pin::pin!(f);
    let w: Waker = Arc::new(Noop).into();
    let mut cx = Context::from_waker(&w);
    loop {
        if let Poll::Ready(v) = f.as_mut().poll(&mut cx) {
            return v;
        }
    }
}

#[derive(Default)]
struct Chain {
    versions: Vec<(Uuid, Uuid, Vec<u8>)>,
    snapshot: Option<(Uuid, Vec<u8>)>,
    n: u128,
}

struct Client(Rc<RefCell<Chain>>);

#[async_trait(?Send)]
impl Server for Client {
    async fn add_version(&mut self, parent: Uuid, seg: Vec<u8>) -> Result<(AddVersionResult, SnapshotUrgency), taskchampion::Error> {
        let mut c = self.0.borrow_mut();
        let latest = c.versions.last().map(|v| v.0);
        if let Some(l) = latest {
            if l != parent {
                return Ok((AddVersionResult::ExpectedParentVersion(l), SnapshotUrgency::None));
            }
        }
        c.n += 1;
        let id = Uuid::from_u128(0x7000_0000_0000_4000_8000_0000_0000_0000 + c.n);
        c.versions.push((id, parent, seg));
        let urgency = if c.n % 3 == 0 { SnapshotUrgency::High } else { SnapshotUrgency::None };
        Ok((AddVersionResult::Ok(id), urgency))
    }
    async fn get_child_version(&mut self, parent: Uuid) -> Result<GetVersionResult, taskchampion::Error> {
        let c = self.0.borrow();
        Ok(match c.versions.iter().find(|v| v.1 == parent) {
            Some(v) => GetVersionResult::Version { version_id: v.0, parent_version_id: v.1, history_segment: v.2.clone() },
            None => GetVersionResult::NoSuchVersion,
        })
    }
    async fn add_snapshot(&mut self, v: Uuid, s: Vec<u8>) -> Result<(), taskchampion::Error> {
        self.0.borrow_mut().snapshot = Some((v, s));
        Ok(())
    }
    async fn get_snapshot(&mut self) -> Result<Option<(Uuid, Vec<u8>)>, taskchampion::Error> {
        Ok(self.0.borrow().snapshot.clone())
    }
}

struct Rng(u64);
impl Rng {
    fn next(&mut self) -> u64 {
        self.0 ^= self.0 << 13;
        self.0 ^= self.0 >> 7;
        self.0 ^= self.0 << 17;
        self.0
    }
    fn below(&mut self, n: u64) -> u64 {
        self.next() % n
    }
}

type Tasks = BTreeMap<Uuid, BTreeMap<String, String>>;

fn tasks_of(r: &mut Replica<InMemoryStorage>) -> Tasks {
    block_on(r.all_task_data()).unwrap().into_iter().map(|(u, t)| (u, t.iter().map(|(k, v)| (k.clone(), v.clone())).collect())).collect()
}

fn fail(msg: String) -> ! {
    println!("MIRI-ORACLE-VIOLATION {msg}");
    std::process::exit(1)
}

fn main() {
    let histories: u64 = std::env::args().nth(2).and_then(|s| s.parse().ok()).unwrap_or(6);
    let mut total_ops = 0u64;
    for h in 0..histories {
        let mut rng = Rng(0x9E37_79B9_7F4A_7C15 ^ (h + 1).wrapping_mul(0xD6E8_FEB8_6659_FD93));
        let chain = Rc::new(RefCell::new(Chain::default()));
        let mut reps: Vec<Replica<InMemoryStorage>> = (0..2).map(|_| Replica::new(InMemoryStorage::new())).collect();
        let mut servers: Vec<Box<dyn Server>> = (0..2).map(|_| Box::new(Client(chain.clone())) as Box<dyn Server>).collect();
        let uuids = [Uuid::from_u128(0xA1 + h as u128 * 16), Uuid::from_u128(0xA2 + h as u128 * 16)];
        for step in 0..14 {
            let r = rng.below(2) as usize;
            match rng.below(10) {
                0..=4 => {
                    // low-level valid operations
                    let u = uuids[rng.below(2) as usize];
                    let mut ops = Operations::new();
                    ops.push(Operation::UndoPoint);
                    let cur = block_on(reps[r].get_task_data(u)).unwrap();
                    match (cur, rng.below(6)) {
                        (None, _) => {
                            ops.push(Operation::Create { uuid: u });
                            ops.push(Operation::Update { uuid: u, property: "status".into(), old_value: None, value: Some("pending".into()), timestamp: Utc.timestamp_opt(1_600_000_000 + step, 0).unwrap() });
                        }
                        (Some(t), 0) => ops.push(Operation::Delete { uuid: u, old_task: t.iter().map(|(k, v)| (k.clone(), v.clone())).collect() }),
                        (Some(t), _) => {
                            let p = format!("p{}", rng.below(2));
                            ops.push(Operation::Update { uuid: u, property: p.clone(), old_value: t.get(&p).map(|s| s.to_string()), value: Some(format!("r{r}-{step}")), timestamp: Utc.timestamp_opt(1_600_000_000 + rng.below(3) as i64, 0).unwrap() });
                        }
                    }
                    total_ops += ops.len() as u64;
                    block_on(reps[r].commit_operations(ops)).unwrap();
                }
                5 => {
                    // high-level mutators
                    let u = uuids[rng.below(2) as usize];
                    if let Some(mut t) = block_on(reps[r].get_task(u)).unwrap() {
                        let mut ops = Operations::new();
                        t.set_description(format!("d{step}"), &mut ops).unwrap();
                        if rng.below(2) == 0 {
                            t.set_status(Status::Completed, &mut ops).unwrap();
                        } else {
                            t.start(&mut ops).unwrap();
                        }
                        let _ = t.get_tags().count();
                        total_ops += ops.len() as u64;
                        block_on(reps[r].commit_operations(ops)).unwrap();
                    }
                }
                6 => {
                    let ops = block_on(reps[r].get_undo_operations()).unwrap();
                    let _ = block_on(reps[r].commit_reversed_operations(ops)).unwrap();
                }
                7 => block_on(reps[r].rebuild_working_set(rng.below(2) == 0)).unwrap(),
                _ => {
                    if let Err(e) = block_on(reps[r].sync(&mut servers[r], false)) {
                        fail(format!("history {h}: sync failed: {e}"));
                    }
                }
            }
        }
        for _ in 0..3 {
            for r in 0..2 {
                if let Err(e) = block_on(reps[r].sync(&mut servers[r], false)) {
                    fail(format!("history {h}: sync failed at quiescence: {e}"));
                }
            }
        }
        let (a, b) = (tasks_of(&mut reps[0]), tasks_of(&mut reps[1]));
        if a != b {
            fail(format!("history {h}: replicas diverged: {a:?} vs {b:?}"));
        }
        // chain replay with the documented semantics
        let mut t = Tasks::new();
        for v in &chain.borrow().versions {
            let doc: serde_json::Value = serde_json::from_slice(&v.2).unwrap();
            for op in doc["operations"].as_array().unwrap() {
                let (k, body) = op.as_object().unwrap().iter().next().unwrap();
                let u = Uuid::parse_str(body["uuid"].as_str().unwrap()).unwrap();
                match k.as_str() {
                    "Create" => {
                        t.entry(u).or_default();
                    }
                    "Delete" => {
                        t.remove(&u);
                    }
                    _ => {
                        if let Some(m) = t.get_mut(&u) {
                            match body["value"].as_str() {
                                Some(v) => {
                                    m.insert(body["property"].as_str().unwrap().to_string(), v.to_string());
                                }
                                None => {
                                    m.remove(body["property"].as_str().unwrap());
                                }
                            }
                        }
                    }
                }
            }
        }
        if a != t {
            fail(format!("history {h}: replicas differ from the chain replay"));
        }
        let ws = block_on(reps[0].working_set()).unwrap();
        let _ = ws.iter().count();
    }
    println!("miri workload ok: {histories} histories, {total_ops} operations committed");
}

#!/bin/bash
# MANIFEST.setup_cmd: offline build of the harness (warms /verif/harness/target).
set -eu
cd "$(dirname "$0")/harness"
export CARGO_NET_OFFLINE=true
cargo build --offline -p tcv 2>&1 | tail -3
